package main

// E4 — codec round-trip monitor (C05).
// The generated operation list is the oracle; everything is executed on the real
// commit.Buffer / Reader / Commit / Log.

import (
	"bytes"
	"encoding/binary"
	"encoding/json"
	"fmt"
	"math"
	"math/rand"
	"os"
	"path/filepath"
	"strings"
	"time"

	"github.com/kelindar/column/commit"
)

const (
	ckDel = iota
	ckIns
	ckTrue
	ckFalse
	ckFix2
	ckFix4
	ckFix8
	ckBytes
)

// cop is one generated operation.
type cop struct {
	Kind  int    `json:"k"`
	Merge bool   `json:"m,omitempty"`
	Off   uint32 `json:"o"`
	Val   []byte `json:"v,omitempty"`
	Res   []byte `json:"r,omitempty"` // merged result (merges only)
	Via   int    `json:"via,omitempty"`
}

// dop is one decoded operation.
type dop struct {
	Type commit.OpType
	Off  uint32
	Val  []byte
}

func (d dop) String() string {
	v := fmt.Sprintf("%x", d.Val)
	if len(v) > 24 {
		v = fmt.Sprintf("%s..(%dB)", v[:24], len(d.Val))
	}
	return fmt.Sprintf("%s@%d=%s", d.Type, d.Off, v)
}

func (c cop) expect(swapped bool) dop {
	switch c.Kind {
	case ckDel, ckFalse:
		return dop{commit.Delete, c.Off, nil}
	case ckIns:
		return dop{commit.Insert, c.Off, nil}
	case ckTrue:
		return dop{commit.PutTrue, c.Off, nil}
	}
	if c.Merge {
		if swapped {
			return dop{commit.Put, c.Off, c.Res}
		}
		return dop{commit.Merge, c.Off, c.Val}
	}
	return dop{commit.Put, c.Off, c.Val}
}

func (c cop) lenChanging() bool {
	return c.Kind == ckBytes && c.Merge && len(c.Res) != len(c.Val)
}

func writeOp(b *commit.Buffer, c cop) {
	op := commit.Put
	if c.Merge {
		op = commit.Merge
	}
	switch c.Kind {
	case ckDel:
		b.PutOperation(commit.Delete, c.Off)
	case ckIns:
		b.PutOperation(commit.Insert, c.Off)
	case ckTrue:
		b.PutBool(c.Off, true)
	case ckFalse:
		b.PutBool(c.Off, false)
	case ckFix2:
		v := binary.BigEndian.Uint16(c.Val)
		switch c.Via % 3 {
		case 0:
			b.PutUint16(op, c.Off, v)
		case 1:
			b.PutInt16(op, c.Off, int16(v))
		default:
			b.PutAny(op, c.Off, v)
		}
	case ckFix4:
		v := binary.BigEndian.Uint32(c.Val)
		switch c.Via % 4 {
		case 0:
			b.PutUint32(op, c.Off, v)
		case 1:
			b.PutInt32(op, c.Off, int32(v))
		case 2:
			b.PutFloat32(op, c.Off, math.Float32frombits(v))
		default:
			b.PutAny(op, c.Off, int32(v))
		}
	case ckFix8:
		v := binary.BigEndian.Uint64(c.Val)
		switch c.Via % 7 {
		case 0:
			b.PutUint64(op, c.Off, v)
		case 1:
			b.PutInt64(op, c.Off, int64(v))
		case 2:
			b.PutFloat64(op, c.Off, math.Float64frombits(v))
		case 3:
			b.PutInt(op, c.Off, int(v))
		case 4:
			b.PutUint(op, c.Off, uint(v))
		case 5:
			b.PutNumber(op, c.Off, math.Float64frombits(v))
		default:
			b.PutAny(op, c.Off, int64(v))
		}
	case ckBytes:
		if c.Via%2 == 0 {
			b.PutBytes(op, c.Off, c.Val)
		} else {
			b.PutString(op, c.Off, string(c.Val))
		}
	}
}

// decode reads every remaining operation of a positioned reader, cross-checking the
// typed getters against the raw bytes; Skip operations are dropped (as every column does).
func decode(r *commit.Reader, out []dop) ([]dop, string) {
	for r.Next() {
		if r.Type == commit.Skip {
			continue
		}
		raw := r.Bytes()
		d := dop{Type: r.Type, Off: r.Index(), Val: append([]byte(nil), raw...)}
		if uint32(r.Offset) != d.Off {
			return out, "Index() != Offset"
		}
		if r.IndexAtChunk() != d.Off&(1<<14-1) {
			return out, fmt.Sprintf("IndexAtChunk()=%d for offset %d", r.IndexAtChunk(), d.Off)
		}
		if len(raw) == 0 {
			d.Val = nil
		}
		out = append(out, d)
	}
	return out, ""
}

// typedCheck verifies the typed getters for fixed-size values on a Seek reader.
func typedCheck(b *commit.Buffer, ops []cop) string {
	r := commit.NewReader()
	r.Seek(b)
	for i := 0; r.Next(); i++ {
		if i >= len(ops) {
			return "more ops than written"
		}
		c := ops[i]
		switch c.Kind {
		case ckFix2:
			v := binary.BigEndian.Uint16(c.Val)
			if r.Uint16() != v || r.Int16() != int16(v) || r.Uint() != uint(v) {
				return fmt.Sprintf("op %d: 2-byte getters disagree with %x", i, c.Val)
			}
		case ckFix4:
			v := binary.BigEndian.Uint32(c.Val)
			if r.Uint32() != v || r.Int32() != int32(v) || math.Float32bits(r.Float32()) != v || r.Uint() != uint(v) {
				return fmt.Sprintf("op %d: 4-byte getters disagree with %x", i, c.Val)
			}
			if f := r.Float(); math.Float64bits(f) != math.Float64bits(float64(math.Float32frombits(v))) {
				return fmt.Sprintf("op %d: Float() disagrees with %x", i, c.Val)
			}
		case ckFix8:
			v := binary.BigEndian.Uint64(c.Val)
			if r.Uint64() != v || r.Int64() != int64(v) || math.Float64bits(r.Float64()) != v || r.Uint() != uint(v) || r.Int() != int(v) ||
				math.Float64bits(r.Number()) != v || math.Float64bits(r.Float()) != v {
				return fmt.Sprintf("op %d: 8-byte getters disagree with %x", i, c.Val)
			}
		case ckBytes:
			if r.String() != string(c.Val) {
				return fmt.Sprintf("op %d: String() disagrees", i)
			}
		case ckTrue:
			if !r.Bool() || !r.IsUpsert() {
				return fmt.Sprintf("op %d: Bool()/IsUpsert() false for PutTrue", i)
			}
		case ckFalse, ckDel:
			if r.Bool() || !r.IsDelete() {
				return fmt.Sprintf("op %d: Bool()/IsDelete() wrong for delete/PutFalse", i)
			}
		}
	}
	return ""
}

func sameOps(got, want []dop) string {
	n := len(got)
	if len(want) < n {
		n = len(want)
	}
	for i := 0; i < n; i++ {
		if got[i].Type != want[i].Type || got[i].Off != want[i].Off || !bytes.Equal(got[i].Val, want[i].Val) {
			return fmt.Sprintf("op %d: got %v want %v", i, got[i], want[i])
		}
	}
	if len(got) != len(want) {
		return fmt.Sprintf("got %d ops, want %d", len(got), len(want))
	}
	return ""
}

// samePerOffset compares the per-offset projections of two sequences.
func samePerOffset(got, want []dop) string {
	g := map[uint32][]dop{}
	w := map[uint32][]dop{}
	for _, d := range got {
		g[d.Off] = append(g[d.Off], d)
	}
	for _, d := range want {
		w[d.Off] = append(w[d.Off], d)
	}
	for off, ws := range w {
		if s := sameOps(g[off], ws); s != "" {
			return fmt.Sprintf("offset %d: %s", off, s)
		}
	}
	for off := range g {
		if _, ok := w[off]; !ok {
			return fmt.Sprintf("offset %d: unexpected ops %v", off, g[off])
		}
	}
	return ""
}

func expected(ops []cop, swapped bool, chunk int64) []dop {
	out := make([]dop, 0, len(ops))
	for _, c := range ops {
		if chunk >= 0 && int64(c.Off>>14) != chunk {
			continue
		}
		out = append(out, c.expect(swapped))
	}
	return out
}

func chunksOf(ops []cop) []commit.Chunk {
	seen := map[commit.Chunk]bool{}
	var out []commit.Chunk
	for _, c := range ops {
		ch := commit.Chunk(c.Off >> 14)
		if !seen[ch] {
			seen[ch] = true
			out = append(out, ch)
		}
	}
	return out
}

func build(name string, ops []cop) *commit.Buffer {
	b := commit.NewBuffer(64)
	b.Reset(name)
	for _, c := range ops {
		writeOp(b, c)
	}
	return b
}

// readAll checks a buffer through Seek and through Range of every chunk.
func readAll(tag string, b *commit.Buffer, ops []cop, swapped, perOffset bool) string {
	cmp := sameOps
	if perOffset {
		cmp = samePerOffset
	}
	r := commit.NewReader()
	r.Seek(b)
	got, e := decode(r, nil)
	if e != "" {
		return tag + "/seek: " + e
	}
	if s := cmp(got, expected(ops, swapped, -1)); s != "" {
		return tag + "/seek: " + s
	}
	chs := chunksOf(ops)
	chs = append(chs, commit.Chunk(12345)) // a chunk that is not in the buffer
	for _, ch := range chs {
		var got []dop
		var e string
		r.Range(b, ch, func(r *commit.Reader) {
			if e == "" {
				got, e = decode(r, got)
			}
		})
		if e != "" {
			return fmt.Sprintf("%s/range(%d): %s", tag, ch, e)
		}
		if s := cmp(got, expected(ops, swapped, int64(ch))); s != "" {
			return fmt.Sprintf("%s/range(%d): %s", tag, ch, s)
		}
	}
	var present []commit.Chunk
	b.RangeChunks(func(c commit.Chunk) { present = append(present, c) })
	seen := map[commit.Chunk]bool{}
	for _, c := range present {
		seen[c] = true
	}
	for _, c := range chunksOf(ops) {
		if !seen[c] {
			return fmt.Sprintf("%s: RangeChunks misses chunk %d", tag, c)
		}
		delete(seen, c)
	}
	if len(seen) != 0 {
		return fmt.Sprintf("%s: RangeChunks reports chunks %v that hold no op", tag, seen)
	}
	if b.IsEmpty() != (len(ops) == 0) {
		return tag + ": IsEmpty wrong"
	}
	return ""
}

// viaCommit serialises one commit per chunk and reads each back.
func viaCommit(tag string, bufs []*commit.Buffer, opss [][]cop, swapped, perOffset bool, id uint64) string {
	cmp := sameOps
	if perOffset {
		cmp = samePerOffset
	}
	all := map[commit.Chunk]bool{}
	for _, ops := range opss {
		for _, ch := range chunksOf(ops) {
			all[ch] = true
		}
	}
	r := commit.NewReader()
	for ch := range all {
		src := commit.Commit{ID: id + uint64(ch), Chunk: ch, Updates: bufs}
		var w bytes.Buffer
		n, err := src.WriteTo(&w)
		if err != nil || n != int64(w.Len()) {
			return fmt.Sprintf("%s/commit(%d): WriteTo n=%d len=%d err=%v", tag, ch, n, w.Len(), err)
		}
		var dst commit.Commit
		m, err := dst.ReadFrom(bytes.NewReader(w.Bytes()))
		if err != nil || m != n {
			return fmt.Sprintf("%s/commit(%d): ReadFrom n=%d want %d err=%v", tag, ch, m, n, err)
		}
		if s := compareCommit(r, &dst, src.ID, ch, bufs, opss, swapped, cmp); s != "" {
			return fmt.Sprintf("%s/commit(%d): %s", tag, ch, s)
		}
	}
	return ""
}

func compareCommit(r *commit.Reader, dst *commit.Commit, id uint64, ch commit.Chunk, bufs []*commit.Buffer, opss [][]cop, swapped bool, cmp func(a, b []dop) string) string {
	if dst.ID != id || dst.Chunk != ch {
		return fmt.Sprintf("id/chunk %d/%d want %d/%d", dst.ID, dst.Chunk, id, ch)
	}
	if len(dst.Updates) != len(bufs) {
		return fmt.Sprintf("%d buffers, want %d", len(dst.Updates), len(bufs))
	}
	for i, u := range dst.Updates {
		if u.Column != bufs[i].Column {
			return fmt.Sprintf("buffer %d: column %q want %q", i, u.Column, bufs[i].Column)
		}
		var got []dop
		var e string
		r.Range(u, ch, func(r *commit.Reader) {
			if e == "" {
				got, e = decode(r, got)
			}
		})
		if e != "" {
			return e
		}
		if s := cmp(got, expected(opss[i], swapped, int64(ch))); s != "" {
			return fmt.Sprintf("buffer %d: %s", i, s)
		}
	}
	return ""
}

// swapPass does what a column does at commit: ranges chunk by chunk and replaces every
// merge delta by the merged result.
func swapPass(b *commit.Buffer, ops []cop) string {
	r := commit.NewReader()
	next := map[uint32][]cop{} // per offset, merges in order
	for _, c := range ops {
		if c.Merge {
			next[c.Off] = append(next[c.Off], c)
		}
	}
	var err string
	for _, ch := range chunksOf(ops) {
		r.Range(b, ch, func(r *commit.Reader) {
			for r.Next() {
				if r.Type != commit.Merge {
					continue
				}
				q := next[r.Index()]
				if len(q) == 0 {
					err = fmt.Sprintf("unexpected merge at offset %d", r.Index())
					return
				}
				c := q[0]
				next[r.Index()] = q[1:]
				switch c.Kind {
				case ckFix2:
					v := binary.BigEndian.Uint16(c.Res)
					if c.Via%2 == 0 {
						r.SwapUint16(v)
					} else {
						r.SwapInt16(int16(v))
					}
				case ckFix4:
					v := binary.BigEndian.Uint32(c.Res)
					switch c.Via % 3 {
					case 0:
						r.SwapUint32(v)
					case 1:
						r.SwapInt32(int32(v))
					default:
						r.SwapFloat32(math.Float32frombits(v))
					}
				case ckFix8:
					v := binary.BigEndian.Uint64(c.Res)
					switch c.Via % 5 {
					case 0:
						r.SwapUint64(v)
					case 1:
						r.SwapInt64(int64(v))
					case 2:
						r.SwapFloat64(math.Float64frombits(v))
					case 3:
						r.SwapInt(int(v))
					default:
						r.SwapUint(uint(v))
					}
				case ckBytes:
					if c.Via%2 == 0 {
						r.SwapBytes(c.Res)
					} else {
						r.SwapString(string(c.Res))
					}
				}
				// the reader itself must now show the swapped value
				if r.Type == commit.Merge && !c.lenChanging() {
					// Type field of the reader is not rewritten by Swap; only later readers matter
				}
			}
		})
		if err != "" {
			return err
		}
	}
	return ""
}

// reorderTrigger reports whether the sequence contains the trigger of KF-VARLEN-MERGE-REORDER:
// a length-changing variable-size merge followed later in the buffer by an operation on the
// same offset that is not itself a length-changing variable-size merge.
func reorderTrigger(ops []cop) bool {
	pending := map[uint32]bool{}
	for _, c := range ops {
		if pending[c.Off] && !c.lenChanging() {
			return true
		}
		if c.lenChanging() {
			pending[c.Off] = true
		}
	}
	return false
}

// checkSeq runs every oracle on one sequence. Returns a difference ("" = held) and whether
// the difference, if any, is attributable to the known reorder finding.
// reusedBuf is written, Reset and written again by every sequence: a re-used buffer (the page
// pool and the per-block snapshot buffer of the library do exactly that) must behave like a fresh one.
var reusedBuf = commit.NewBuffer(64)

func checkSeq(ops []cop, deep bool) (diff string, kf bool) {
	b := build("col", ops)
	if s := readAll("fresh", b, ops, false, false); s != "" {
		return s, false
	}
	reusedBuf.PutUint32(commit.Put, 3*16384+777, 42) // leaves a non-zero last offset and a block header behind
	reusedBuf.Reset("col")
	for _, c := range ops {
		writeOp(reusedBuf, c)
	}
	if s := readAll("reused-after-Reset", reusedBuf, ops, false, false); s != "" {
		return s, false
	}
	if s := typedCheck(b, ops); s != "" {
		return "typed: " + s, false
	}
	cl := b.Clone()
	if s := readAll("clone", cl, ops, false, false); s != "" {
		return s, false
	}
	// Buffer.WriteTo / ReadFrom
	var w bytes.Buffer
	n, err := b.WriteTo(&w)
	if err != nil || n != int64(w.Len()) {
		return fmt.Sprintf("Buffer.WriteTo n=%d len=%d err=%v", n, w.Len(), err), false
	}
	rb := commit.NewBuffer(0)
	m, err := rb.ReadFrom(bytes.NewReader(w.Bytes()))
	if err != nil || m != n {
		return fmt.Sprintf("Buffer.ReadFrom n=%d want %d err=%v", m, n, err), false
	}
	if rb.Column != "col" {
		return "Buffer.ReadFrom: column name lost", false
	}
	if s := readAll("decoded", rb, ops, false, false); s != "" {
		return s, false
	}
	if deep && len(ops) > 1 {
		// write a prefix, serialise, decode, append the rest to the decoded buffer
		k := len(ops) / 2
		pb := build("col", ops[:k])
		w.Reset()
		pb.WriteTo(&w)
		rb2 := commit.NewBuffer(0)
		if _, err := rb2.ReadFrom(bytes.NewReader(w.Bytes())); err != nil {
			return "prefix ReadFrom: " + err.Error(), false
		}
		for _, c := range ops[k:] {
			writeOp(rb2, c)
		}
		if s := readAll("decoded+appended", rb2, ops, false, false); s != "" {
			return s, false
		}
	}
	// Commit round trip (two buffers: the sequence and its reverse-kind twin, plus an empty one)
	b2 := build("other", ops[:len(ops)/2])
	empty := commit.NewBuffer(0)
	empty.Reset("empty")
	bufs := []*commit.Buffer{b, b2, empty}
	opss := [][]cop{ops, ops[:len(ops)/2], nil}
	if s := viaCommit("plain", bufs, opss, false, false, 1000); s != "" {
		return s, false
	}
	// Swap pass
	hasMerge := false
	lenCh := false
	for _, c := range ops {
		hasMerge = hasMerge || c.Merge
		lenCh = lenCh || c.lenChanging()
	}
	if !hasMerge {
		return "", false
	}
	trig := reorderTrigger(ops)
	sb := b.Clone()
	if s := swapPass(sb, ops); s != "" {
		return "swap: " + s, trig
	}
	if s := readAll("swapped", sb, ops, true, lenCh); s != "" {
		return s, trig
	}
	w.Reset()
	sb.WriteTo(&w)
	rb3 := commit.NewBuffer(0)
	if _, err := rb3.ReadFrom(bytes.NewReader(w.Bytes())); err != nil {
		return "swapped ReadFrom: " + err.Error(), trig
	}
	if s := readAll("swapped+decoded", rb3, ops, true, lenCh); s != "" {
		return s, trig
	}
	if s := viaCommit("swapped", []*commit.Buffer{sb}, [][]cop{ops}, true, lenCh, 5000); s != "" {
		return s, trig
	}
	if s := readAll("swapped+clone", sb.Clone(), ops, true, lenCh); s != "" {
		return s, trig
	}
	// the same Swap pass on a commit that was serialised and decoded first (a replica applying a
	// commit that still carries merges), block by block, then read again by a later reader
	cmp := sameOps
	if lenCh {
		cmp = samePerOffset
	}
	rd := commit.NewReader()
	for _, ch := range chunksOf(ops) {
		src := commit.Commit{ID: 9000 + uint64(ch), Chunk: ch, Updates: []*commit.Buffer{b}}
		w.Reset()
		if _, err := src.WriteTo(&w); err != nil {
			return "decoded-commit swap: WriteTo: " + err.Error(), trig
		}
		var dst commit.Commit
		if _, err := dst.ReadFrom(bytes.NewReader(w.Bytes())); err != nil || len(dst.Updates) != 1 {
			return fmt.Sprintf("decoded-commit swap: ReadFrom: %v (%d buffers)", err, len(dst.Updates)), trig
		}
		var inChunk []cop
		for _, c := range ops {
			if commit.Chunk(c.Off>>14) == ch {
				inChunk = append(inChunk, c)
			}
		}
		if s := swapPass(dst.Updates[0], inChunk); s != "" {
			return fmt.Sprintf("decoded-commit(%d) swap: %s", ch, s), trig
		}
		var got []dop
		var e string
		rd.Range(dst.Updates[0], ch, func(r *commit.Reader) {
			if e == "" {
				got, e = decode(r, got)
			}
		})
		if e != "" {
			return fmt.Sprintf("decoded-commit(%d) swapped: %s", ch, e), trig
		}
		if s := cmp(got, expected(ops, true, int64(ch))); s != "" {
			return fmt.Sprintf("decoded-commit(%d) swapped: %s", ch, s), trig
		}
	}
	return "", false
}

// ---------------------------------------------------------------------------------------------
// Alphabets

type ckind struct {
	kind   int
	merge  bool
	vlen   int
	reslen int
	name   string
}

var kindsFull = []ckind{
	{ckDel, false, 0, 0, "del"}, {ckIns, false, 0, 0, "ins"}, {ckTrue, false, 0, 0, "true"}, {ckFalse, false, 0, 0, "false"},
	{ckFix2, false, 2, 0, "put2"}, {ckFix4, false, 4, 0, "put4"}, {ckFix8, false, 8, 0, "put8"},
	{ckFix2, true, 2, 2, "mrg2"}, {ckFix4, true, 4, 4, "mrg4"}, {ckFix8, true, 8, 8, "mrg8"},
	{ckBytes, false, 0, 0, "putB0"}, {ckBytes, false, 1, 0, "putB1"}, {ckBytes, false, 200, 0, "putB200"},
	{ckBytes, true, 0, 0, "mrgB0=0"}, {ckBytes, true, 1, 1, "mrgB1=1"}, {ckBytes, true, 1, 3, "mrgB1>3"}, {ckBytes, true, 3, 1, "mrgB3>1"}, {ckBytes, true, 300, 0, "mrgB300>0"},
}

var kindsReduced = []ckind{
	{ckDel, false, 0, 0, "del"}, {ckIns, false, 0, 0, "ins"}, {ckTrue, false, 0, 0, "true"},
	{ckFix2, false, 2, 0, "put2"}, {ckFix8, true, 8, 8, "mrg8"}, {ckBytes, false, 1, 0, "putB1"},
	{ckBytes, true, 1, 1, "mrgB1=1"}, {ckBytes, true, 2, 5, "mrgB2>5"},
}

// mid alphabet: 12 kinds x 8 moves = 96 symbols (96^3 = 884 736 sequences)
var kindsMid = []ckind{
	{ckDel, false, 0, 0, "del"}, {ckIns, false, 0, 0, "ins"}, {ckTrue, false, 0, 0, "true"}, {ckFix2, false, 2, 0, "put2"}, {ckFix4, true, 4, 4, "mrg4"},
	{ckFix8, false, 8, 0, "put8"}, {ckFix8, true, 8, 8, "mrg8"}, {ckBytes, false, 0, 0, "putB0"}, {ckBytes, false, 200, 0, "putB200"},
	{ckBytes, true, 1, 1, "mrgB1=1"}, {ckBytes, true, 1, 3, "mrgB1>3"}, {ckBytes, true, 3, 1, "mrgB3>1"},
}

type cmove struct {
	rel  int64
	abs  int64 // used when rel == math.MinInt64
	name string
}

const absMove = math.MinInt64

var movesFull = []cmove{
	{0, 0, "same"}, {1, 0, "+1"}, {2, 0, "+2"}, {127, 0, "+127"}, {128, 0, "+128"}, {16383, 0, "+16383"}, {16384, 0, "+16384"},
	{1 << 21, 0, "+2^21"}, {-1, 0, "-1"}, {-129, 0, "-129"}, {-16384, 0, "-16384"}, {absMove, 5, "=5"}, {absMove, 3*16384 + 7, "=3*16K+7"}, {absMove, 1 << 28, "=2^28"},
}

var movesMid = []cmove{{0, 0, "same"}, {1, 0, "+1"}, {127, 0, "+127"}, {128, 0, "+128"}, {16384, 0, "+16384"}, {1 << 21, 0, "+2^21"}, {-1, 0, "-1"}, {absMove, 5, "=5"}}

var movesReduced = []cmove{{0, 0, "same"}, {1, 0, "+1"}, {200, 0, "+200"}, {16384, 0, "+16384"}, {-3, 0, "-3"}}

func applyMove(prev uint32, m cmove) uint32 {
	if m.rel == absMove {
		return uint32(m.abs)
	}
	v := int64(prev) + m.rel
	if v < 0 {
		v = -v + 11
	}
	if v > math.MaxInt32 {
		v = v % 1000003
	}
	return uint32(v)
}

func fillBytes(n int, salt uint64) []byte {
	if n == 0 {
		return nil
	}
	out := make([]byte, n)
	x := salt*0x9E3779B97F4A7C15 + 0x1234567
	for i := range out {
		x ^= x << 13
		x ^= x >> 7
		x ^= x << 17
		out[i] = byte(x)
	}
	// special patterns
	switch salt % 7 {
	case 0:
		for i := range out {
			out[i] = 0xff
		}
	case 1:
		for i := range out {
			out[i] = 0
		}
	case 2:
		out[0] = 0x80
	}
	return out
}

func mkOp(k ckind, off uint32, salt uint64) cop {
	c := cop{Kind: k.kind, Merge: k.merge, Off: off, Via: int(salt % 97)}
	c.Val = fillBytes(k.vlen, salt)
	if k.merge {
		c.Res = fillBytes(k.reslen, salt+77)
	}
	return c
}

// seqFromNumber decodes sequence number n (base = len(kinds)*len(moves)) of length L.
func seqFromNumber(n uint64, L int, kinds []ckind, moves []cmove) ([]cop, string) {
	A := uint64(len(kinds) * len(moves))
	ops := make([]cop, L)
	var names []string
	prev := uint32(0)
	for i := 0; i < L; i++ {
		sym := n % A
		n /= A
		k := kinds[sym/uint64(len(moves))]
		m := moves[sym%uint64(len(moves))]
		prev = applyMove(prev, m)
		ops[i] = mkOp(k, prev, sym*31+uint64(i))
		names = append(names, k.name+m.name)
	}
	return ops, strings.Join(names, " ")
}

// ---------------------------------------------------------------------------------------------
// Case plan: a list of "spaces", each split into cases of caseSize sequences; then random cases

type codecSpace struct {
	kinds []ckind
	moves []cmove
	L     int
	total uint64
	cases int
	name  string
}

const codecCaseSize = 4096

func codecSpaces(tier string) []codecSpace {
	var sp []codecSpace
	add := func(name string, k []ckind, m []cmove, L int) {
		A := uint64(len(k) * len(m))
		t := uint64(1)
		for i := 0; i < L; i++ {
			t *= A
		}
		sp = append(sp, codecSpace{k, m, L, t, int((t + codecCaseSize - 1) / codecCaseSize), name})
	}
	add("reduced^1", kindsReduced, movesReduced, 1)
	add("reduced^2", kindsReduced, movesReduced, 2)
	add("reduced^3", kindsReduced, movesReduced, 3)
	add("full^1", kindsFull, movesFull, 1)
	add("full^2", kindsFull, movesFull, 2)
	if tier == "thorough" {
		add("reduced^4", kindsReduced, movesReduced, 4)
		add("mid^3", kindsMid, movesMid, 3)
	}
	return sp
}

func codecRandomCases(tier string) int {
	if tier == "thorough" {
		return 6000
	}
	return 600
}

func codecPlan(tier string) []Plan {
	n := 0
	for _, s := range codecSpaces(tier) {
		n += s.cases
	}
	n += codecRandomCases(tier)
	return []Plan{{Cases: n, Workers: 16, MaxProcs: 1, Timeout: 90 * time.Minute}}
}

type codecReplay struct {
	Phase int    `json:"phase"`
	Idx   int    `json:"idx"`
	Space string `json:"space,omitempty"`
	Seq   uint64 `json:"seq"`
	Shape string `json:"shape,omitempty"`
	Ops   []cop  `json:"ops,omitempty"`
}

func codecRun(w *W, phase, idx int) {
	spaces := codecSpaces(w.Tier)
	// the seeded random cases come first, so that a truncated run has still seen them
	orig := idx
	if nr := codecRandomCases(w.Tier); idx < nr {
		codecRandomCase(w, idx, idx)
		return
	} else {
		idx -= nr
	}
	base := 0
	for _, sp := range spaces {
		if idx < base+sp.cases {
			codecEnumCase(w, orig, sp, uint64(idx-base))
			return
		}
		base += sp.cases
	}
}

func trimOps(ops []cop) []cop {
	if len(ops) <= 12 {
		return ops
	}
	return ops[:12]
}

func codecEnumCase(w *W, idx int, sp codecSpace, k uint64) {
	w.Begin(idx, fmt.Sprintf("codec:%s:case%d", sp.name, k))
	lo := k * codecCaseSize
	hi := lo + codecCaseSize
	if hi > sp.total {
		hi = sp.total
	}
	only := uint64(math.MaxUint64)
	if os.Getenv("VERIF_REPLAY_SEQ") != "" {
		fmt.Sscan(os.Getenv("VERIF_REPLAY_SEQ"), &only)
	}
	for n := lo; n < hi; n++ {
		if only != math.MaxUint64 && n != only {
			continue
		}
		ops, shape := seqFromNumber(n, sp.L, sp.kinds, sp.moves)
		diff, kf := checkSeq(ops, false)
		w.Eval(hashOf(sp.name, n), true)
		w.Stat("ops_written", int64(len(ops)))
		if reorderTrigger(ops) {
			w.Stat("sequences_with_reorder_trigger", 1)
		}
		if diff != "" {
			key := ""
			if kf {
				key = "KF-VARLEN-MERGE-REORDER"
			}
			w.Violate(idx, fmt.Sprintf("codec:%s:seq%d", sp.name, n), fmt.Sprintf("%s  [sequence: %s]", diff, shape), key,
				codecReplay{Idx: idx, Space: sp.name, Seq: n, Shape: shape, Ops: ops})
		}
		if n == lo && k%97 == 0 {
			w.Sample(map[string]any{"space": sp.name, "seq": n, "shape": shape})
		}
	}
	if k == 0 {
		w.Stat("exhaustive_spaces", 1)
		w.Note(fmt.Sprintf("space %s: %d sequences enumerated exhaustively", sp.name, sp.total))
	}
}

// random long sequences, interleaved blocks, plus Log round trips
func codecRandomCase(w *W, idx, k int) {
	w.Begin(idx, fmt.Sprintf("codec:random:%d", k))
	w.Stat("nonexhaustive", 1)
	rng := rand.New(rand.NewSource(w.Seed*1000003 + int64(k)))
	n := 1 + rng.Intn(40)
	if k%5 == 0 {
		n = 200 + rng.Intn(1800)
	}
	nblocks := 1 + rng.Intn(4)
	blocks := make([]uint32, nblocks)
	for i := range blocks {
		blocks[i] = uint32(rng.Intn(6))
		if rng.Intn(10) == 0 {
			blocks[i] = uint32(rng.Intn(1 << 16))
		}
	}
	allowTrigger := k%4 == 0
	genSeq := func(n int) []cop {
		ops := make([]cop, 0, n)
		prev := uint32(0)
		lenChanged := map[uint32]bool{}
		for i := 0; i < n; i++ {
			kd := kindsFull[rng.Intn(len(kindsFull))]
			if kd.kind == ckBytes {
				switch rng.Intn(12) {
				case 0:
					kd.vlen = 65535
				case 1:
					kd.vlen = 255 + rng.Intn(3)
				case 2:
					kd.vlen = 127 + rng.Intn(3)
				default:
					kd.vlen = rng.Intn(40)
				}
				if kd.merge {
					if rng.Intn(2) == 0 {
						kd.reslen = kd.vlen
					} else {
						kd.reslen = rng.Intn(300)
					}
				}
			}
			var off uint32
			switch rng.Intn(8) {
			case 0:
				off = prev
			case 1:
				off = prev + 1
			case 2:
				off = blocks[rng.Intn(nblocks)]<<14 | uint32(rng.Intn(1<<14))
			case 3:
				if prev > 0 {
					off = prev - 1
				}
			case 4:
				off = applyMove(prev, movesFull[rng.Intn(len(movesFull))])
			default:
				off = prev + uint32(rng.Intn(300))
			}
			if off > math.MaxInt32 {
				off = uint32(rng.Intn(1 << 20))
			}
			c := mkOp(kd, off, rng.Uint64())
			if !allowTrigger && lenChanged[off] && !c.lenChanging() {
				i--
				continue
			}
			if c.lenChanging() {
				lenChanged[off] = true
			}
			ops = append(ops, c)
			prev = off
		}
		return ops
	}
	ops := genSeq(n)
	diff, kf := checkSeq(ops, true)
	blocksSeen := len(chunksOf(ops))
	w.Eval(hashOf("random", w.Seed, k), true)
	w.Stat("ops_written", int64(len(ops)))
	w.StatMax("max_blocks_in_one_buffer", int64(blocksSeen))
	w.StatMax("max_sequence_length", int64(len(ops)))
	if reorderTrigger(ops) {
		w.Stat("sequences_with_reorder_trigger", 1)
	}
	if diff != "" {
		key := ""
		if kf {
			key = "KF-VARLEN-MERGE-REORDER"
		}
		w.Violate(idx, fmt.Sprintf("codec:random:%d", k), diff, key, codecReplay{Idx: idx, Seq: uint64(k), Ops: trimOps(ops)})
		return
	}
	if k == 0 {
		w.Sample(map[string]any{"space": "random", "n": len(ops), "first_ops": trimOps(ops)})
	}
	// Log round trip: several commits over two buffers, to a bytes.Buffer and to a real file
	ncommits := 1 + rng.Intn(6)
	type lc struct {
		id   uint64
		ch   commit.Chunk
		bufs []*commit.Buffer
		opss [][]cop
	}
	var commits []lc
	for i := 0; i < ncommits; i++ {
		o1 := genSeq(1 + rng.Intn(30))
		if i == 0 && k%7 == 0 {
			o1 = append(o1, mkOp(ckind{ckBytes, false, 65535, 0, ""}, o1[len(o1)-1].Off+1, 9)) // > s2 block? no, but large
			for j := 0; j < 40; j++ {
				o1 = append(o1, mkOp(ckind{ckBytes, false, 60000, 0, ""}, o1[len(o1)-1].Off+1, uint64(j)*13+3))
			}
		}
		o2 := genSeq(rng.Intn(10))
		chs := chunksOf(o1)
		commits = append(commits, lc{uint64(rng.Int63()) + 1, chs[rng.Intn(len(chs))], []*commit.Buffer{build("a", o1), build("b", o2)}, [][]cop{o1, o2}})
	}
	check := func(tag string, open func() (*commit.Log, func() *commit.Log, func())) string {
		lg, reopen, cleanup := open()
		defer cleanup()
		for _, c := range commits {
			if err := lg.Append(commit.Commit{ID: c.id, Chunk: c.ch, Updates: c.bufs}); err != nil {
				return tag + ": Append: " + err.Error()
			}
		}
		rd := reopen()
		i := 0
		r := commit.NewReader()
		var diff string
		err := rd.Range(func(got commit.Commit) error {
			if i >= len(commits) {
				diff = "more commits than appended"
				return fmt.Errorf("stop")
			}
			c := commits[i]
			if s := compareCommit(r, &got, c.id, c.ch, c.bufs, c.opss, false, sameOps); s != "" {
				diff = fmt.Sprintf("commit %d: %s", i, s)
				return fmt.Errorf("stop")
			}
			i++
			return nil
		})
		if diff != "" {
			return tag + ": " + diff
		}
		if err != nil {
			return tag + ": Range: " + err.Error()
		}
		if i != len(commits) {
			return fmt.Sprintf("%s: %d commits delivered, %d appended", tag, i, len(commits))
		}
		return ""
	}
	s := check("log/mem", func() (*commit.Log, func() *commit.Log, func()) {
		var mem bytes.Buffer
		return commit.Open(&mem), func() *commit.Log { return commit.Open(bytes.NewReader(mem.Bytes())) }, func() {}
	})
	if s == "" && k%3 == 0 {
		s = check("log/file", func() (*commit.Log, func() *commit.Log, func()) {
			name := filepath.Join(os.TempDir(), fmt.Sprintf("codec-%d-%d.log", os.Getpid(), k))
			lg, err := commit.OpenFile(name)
			if err != nil {
				panic(err)
			}
			var second *commit.Log
			return lg, func() *commit.Log {
					lg.Close()
					second, err = commit.OpenFile(name)
					if err != nil {
						panic(err)
					}
					return second
				}, func() {
					if second != nil {
						second.Close()
					}
					os.Remove(name)
				}
		})
		w.Stat("log_files_roundtripped", 1)
	}
	w.Stat("log_commits_roundtripped", int64(ncommits))
	if s != "" {
		w.Violate(idx, fmt.Sprintf("codec:random:%d", k), s, "", codecReplay{Idx: idx, Seq: uint64(k)})
	}
}

func codecReplayFn(w *W, raw json.RawMessage) {}

func init() {
	register(&Property{
		ID:    "C05",
		Level: "exploration",
		Rule: "every sequence over (op kind x value width x offset move) up to the stated length is one case (exhaustive spaces listed in notes), plus seeded random long sequences with interleaved blocks; " +
			"each is written to a real commit.Buffer and must decode identically via Seek/Next, Range per block, Clone, Buffer.WriteTo/ReadFrom, Commit.WriteTo/ReadFrom per block, Log.Append/Range (memory and file), and after a column-style Swap pass; " +
			"distinct = distinct sequence numbers; every sequence is non-trivial (it writes at least one operation)",
		Assume: []string{
			"offsets < 2^31 (Reader.Offset is an int32)",
			"values <= 65535 bytes (documented length prefix)",
			"Swap* is applied through a reader positioned by Reader.Range, as every column does; SwapBool is not exercised (no Buffer API writes a bool merge)",
		},
		Plan:      codecPlan,
		Run:       codecRun,
		MinEvents: map[string]int64{"ops_written": 1000, "log_commits_roundtripped": 10},
	})
}
