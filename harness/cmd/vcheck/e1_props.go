package main

// e1_props.go — per-property configurations of the lock-step model monitor.

import (
	"fmt"
	"time"
)

func e1Plan(quick, thorough int) func(string) []Plan {
	return func(tier string) []Plan {
		n := quick
		if tier == "thorough" {
			n = thorough
		}
		return []Plan{{Cases: n, Workers: 16, MaxProcs: 1, Timeout: 40 * time.Minute}}
	}
}

func withProbes(prop string, f func(string) []Plan) func(string) []Plan {
	return func(tier string) []Plan {
		pl := f(tier)
		if n := len(probesByProp[prop]); n > 0 {
			pl = append(pl, Plan{Cases: n, Workers: 1, MaxProcs: 1, Timeout: 5 * time.Minute})
		}
		return pl
	}
}

func steps(tier string, quick, thorough int) int {
	if tier == "thorough" {
		return thorough
	}
	return quick
}

func baseTxn() txnGenOpts {
	return txnGenOpts{MaxOps: 5, PInsert: 30, PUpdate: 45, PDelete: 15, PKeyOps: 10, PFailInsert: 5, PAbort: 8, MergePct: 35, MaxLive: 260, InsertAllPct: 15}
}

var numericKinds = []Kind{KInt, KInt16, KInt32, KInt64, KUint, KUint16, KUint32, KUint64, KFloat32, KFloat64}

func cfgC01(tier string) e1Cfg {
	return e1Cfg{Prop: "C01", Kinds: allKinds, LateKinds: allKinds, KeyedPct: 20, LayoutPct: 60, Steps: steps(tier, 110, 400), Pool: "edge",
		PNewCol: 3, Txn: baseTxn(), DumpEvery: map[string]int{"quick": 1, "thorough": 4}[tier], Oracles: oracleSet("values"), DensePct: 6, PDelAll: 2}
}

func cfgC02(tier string) e1Cfg {
	t := baseTxn()
	t.PAbort, t.PFailInsert, t.MaxLive, t.PInsert, t.MaxOps, t.SwallowPct = 35, 15, 70, 40, 6, 30
	return e1Cfg{Prop: "C02", Kinds: []Kind{KInt, KInt16, KUint32, KFloat64, KBool, KString, KStringCat, KEnum, KRecordMerge}, KeyedPct: 35, LayoutPct: 15,
		Steps: steps(tier, 90, 300), Pool: "edge", Twin: true, InFlight: true, NIdx: 2, NSorted: 1, Txn: t, DumpEvery: 1,
		Oracles: oracleSet("rollback", "own-reads", "values", "live", "stream-rollback"), Caps: []int{1, 64, 65, 1000, 16385}, Interlope: true, PRestore: 2, TailPct: 60, PDelAll: 3}
}

func cfgC03(tier string) e1Cfg {
	t := baseTxn()
	t.MergePct = 45
	return e1Cfg{Prop: "C03", Kinds: []Kind{KInt, KInt16, KInt32, KInt64, KUint16, KUint64, KFloat32, KFloat64, KBool, KString, KStringCat, KEnum, KRecord, KStringMin, KUint, KRecordMerge}, KeyedPct: 10, LayoutPct: 50,
		Steps: steps(tier, 100, 350), Pool: "small", Replica: true, NIdx: 5, PIdxChg: 7, PRestore: 2, Txn: t, DumpEvery: 1,
		Oracles: oracleSet("index", "replica-index"), DensePct: 12, TailPct: 30, PDelAll: 3}
}

func countPlan(tier string) Plan {
	n := 4
	if tier == "thorough" {
		n = 32
	}
	return Plan{Cases: n, Workers: 4, MaxProcs: 4, Timeout: 40 * time.Minute, HangIsViol: true}
}

func cfgC04(tier string) e1Cfg {
	t := baseTxn()
	t.PDelete, t.InsertAllPct = 22, 30
	return e1Cfg{Prop: "C04", Kinds: append(append([]Kind{}, numericKinds...), KBool, KString, KEnum, KRecord, KInt64, KUint64), KeyedPct: 10, LayoutPct: 55,
		LateKinds: append(append([]Kind{}, numericKinds...), KBool, KString, KEnum), PNewCol: 2,
		Steps: steps(tier, 130, 420), Pool: "agg", NIdx: 4, PIdxChg: 3, PFilter: 55, Txn: t, DumpEvery: 1, Oracles: oracleSet("filter", "index"), PDelAll: 4}
}

func cfgC07(tier string) e1Cfg {
	return e1Cfg{Prop: "C07", Kinds: allKinds, LateKinds: allKinds, KeyedPct: 30, LayoutPct: 55, Steps: steps(tier, 70, 260), Pool: "edge",
		NIdx: 3, NSorted: 1, PIdxChg: 2, PNewCol: 2, PRestore: 5, Txn: baseTxn(), DumpEvery: 2, FinalRestore: true,
		Oracles: oracleSet("restore", "index", "sorted", "keys", "values", "live"), DensePct: 10, TailPct: 40, PDelAll: 2}
}

func cfgC11(tier string) e1Cfg {
	t := baseTxn()
	t.PInsert, t.PDelete, t.PUpdate, t.InsertAllPct, t.PAbort, t.PFailInsert, t.MaxOps, t.SwallowPct = 45, 35, 20, 40, 12, 10, 8, 30
	return e1Cfg{Prop: "C11", Kinds: []Kind{KInt, KInt16, KUint64, KFloat32, KBool, KString, KStringCat, KEnum, KRecord, KRecordMerge, KInt64Mul}, KeyedPct: 15, LayoutPct: 70,
		Steps: steps(tier, 130, 420), Pool: "edge", Txn: t, DumpEvery: 1, Oracles: oracleSet("live", "values", "index"), DensePct: 7, Interlope: true, PDelAll: 4, NIdx: 2, PIdxChg: 1}
}

func cfgC12(tier string) e1Cfg {
	t := baseTxn()
	t.PKeyOps, t.PInsert, t.PUpdate, t.PDelete, t.PAbort, t.MaxOps, t.MaxLive, t.SwallowPct, t.DupDelPct = 35, 25, 25, 15, 15, 6, 40, 35, 15
	return e1Cfg{Prop: "C12", Kinds: []Kind{KInt, KString, KBool}, KeyedPct: 100, LayoutPct: 12, Steps: steps(tier, 220, 700), Pool: "small", Txn: t, DumpEvery: 1,
		Oracles: oracleSet("keys", "live"), Caps: []int{1, 64, 1000}, PRestore: 1, Interlope: true, PDelAll: 4}
}

func cfgC16(tier string) e1Cfg {
	t := baseTxn()
	t.MergePct = 40
	return e1Cfg{Prop: "C16", Kinds: []Kind{KString, KString, KEnum, KInt, KBool, KStringMin, KStringCat}, KeyedPct: 10, LayoutPct: 40, Steps: steps(tier, 130, 420), Pool: "small",
		NIdx: 2, NSorted: 3, PIdxChg: 5, PFilter: 25, PRestore: 1, Txn: t, DumpEvery: 1, Oracles: oracleSet("sorted"), PDelAll: 3}
}

func cfgC19(tier string) e1Cfg {
	t := baseTxn()
	t.MergePct, t.PAbort = 45, 15
	return e1Cfg{Prop: "C19", Kinds: []Kind{KInt, KInt16, KInt32, KUint16, KUint64, KFloat32, KFloat64, KString, KEnum, KRecord, KInt64Mul, KStringCat, KRecordMerge, KStringMin}, KeyedPct: 10, LayoutPct: 35,
		Steps: steps(tier, 150, 500), Pool: "edge", NIdx: 1, NTrig: 4, PIdxChg: 6, Txn: t, DumpEvery: 8, Oracles: oracleSet("trig"), PDelAll: 3}
}

type e1Prop struct {
	id       string
	cfg      func(string) e1Cfg
	quick    int
	thorough int
	rule     string
	min      map[string]int64
}

func init() {
	props := []e1Prop{
		{"C01", cfgC01, 1600, 40000, "one case = one seeded history (capacity, schema of all column kinds, optional dense-then-sparse layout over up to 3 blocks, ~110/400 transactions) executed in lock-step with the reference model; after every step every cell of every live row is read through Row and Txn typed readers and Row.Any and compared bit/byte-wise with the model; non-trivial = at least 3 committed transactions; distinct = distinct (final state hash, committed count, op count)",
			map[string]int64{"txn_committed": 500, "dumps": 500}},
		{"C02", cfgC02, 2400, 32000, "one case = one seeded history in which ~40% of the transactions end in an error (body error or failing row callback, after successful inserts/updates/deletes/key ops); after every rolled-back transaction the full dump (rows, values, indexes, keys, counts, sorted order) must equal the dump before it, nothing may reach the logger, and a twin collection that only ever ran the committed transactions must hand out the same insert offsets; inside transactions every write is followed by a read through the same transaction; every third transaction is observed from a second goroutine after each buffered operation (full dump, sometimes snapshot+restore); non-trivial = at least 3 committed transactions",
			map[string]int64{"txn_rolled_back": 100, "inflight_observations": 100}},
		{"C03", cfgC03, 1600, 32000, "one case = one seeded history with up to 6 bitmap indexes (numeric thresholds per accessor, string equality/prefix, bool, record byte tests) created before or after the data and dropped at random; after every step With(index) and Row.Bool(index) are compared with the predicate evaluated over the values read through the typed readers - on the primary, on a stream replica and on restored collections; non-trivial = at least 3 committed transactions",
			map[string]int64{"index_comparisons": 500, "replica_comparisons": 100}},
		{"C04", cfgC04, 3200, 48000, "one case = one seeded history interleaved with random filter chains (length 1-5 over With/Without/Union/WithUnion/WithValue/WithInt/WithUint/WithFloat/WithString on indexes, value columns, bool columns and missing names); Count, the Range sequence and Sum/Avg/Min/Max over a random numeric column are compared with set algebra over the dumped rows and values (float values are dyadic rationals so every summation order is exact); non-trivial = at least 3 committed transactions",
			map[string]int64{"filter_chains": 500, "aggregates": 300}},
		{"C07", cfgC07, 1200, 32000, "one case = one seeded history with snapshot->restore cycles into fresh collections of the same schema (same or different capacity); dump(restored) must equal dump(original) (rows, offsets, values of all kinds, indexes, sorted order, key lookups, counts) and the history then continues on the restored collection under the value/live/key oracles; second phase: a three-block collection of ten column kinds in which one cell holds a filler string sized so that the uncompressed state is exactly 1 MiB + t bytes, for every t up to the size of everything that is not filler - the s2 reader hands out short reads at its 1 MiB block boundary, which thereby falls on every byte of every header and field once; third phase: collections filled block by block exactly to a block boundary, snapshotted while transactions commit at the hook points incl. the insert that opens the next block before / after the state is written - the complete stream must restore to the primary; non-trivial = at least 3 committed transactions",
			map[string]int64{"restores": 60, "restored_rows": 1000}},
		{"C11", cfgC11, 1600, 40000, "one case = one seeded insert/delete-heavy history over fragmented fill patterns (dense fill then sparse survivors around word and block boundaries); every offset returned by an insert is checked against the model's live set and the transaction's own reservations, after every step Range/Count/Txn.Count must equal the live set and every cell of a new row must be what its insert stored (anything else is stale data); non-trivial = at least 3 committed transactions",
			map[string]int64{"txn_committed": 500}},
		{"C12", cfgC12, 3200, 48000, "one case = one seeded history of InsertKey/UpsertKey/QueryKey/DeleteKey/SetKey over a 10-key alphabet; every return value is compared with the model's key table at issue time and after every step every key of the alphabet is looked up and rows are grouped by key; 4 % of the steps are a random filter chain followed by Txn.DeleteAll or (one in three) by DeleteKey of an existing key, which must succeed whatever the selection is; non-trivial = at least 3 committed transactions",
			map[string]int64{"key_lookups": 2000}},
		{"C16", cfgC16, 3200, 48000, "one case = one seeded history over a 6-string alphabet with up to 3 sorted indexes created before or after the data; after every step the Ascend sequence (plain and under a random filter chain) must be a permutation of the selected rows holding a value, in non-decreasing order of the values read at the callbacks; non-trivial = at least 3 committed transactions",
			map[string]int64{"ascend_rows": 2000, "ascend_equal_neighbours": 100}},
		{"C19", cfgC19, 3200, 48000, "one case = one seeded history with up to 3 triggers created/dropped mid-history; per transaction the callback log (offset, delete?, value) is compared per row with the model's committed stores (after merge) and row deletions; nothing may be reported for rolled-back transactions or unregistered triggers; non-trivial = at least 3 committed transactions",
			map[string]int64{"trigger_callbacks": 1000}},
	}
	for _, p := range props {
		p := p
		mp := &multiPhase{}
		mp.add(func(tier string) Plan { return e1Plan(p.quick, p.thorough)(tier)[0] }, func(w *W, idx int) { runHistory(w, idx, p.cfg(w.Tier)) })
		if n := len(probesByProp[p.id]); n > 0 {
			mp.add(func(string) Plan { return Plan{Cases: n, Workers: 1, MaxProcs: 1, Timeout: 5 * time.Minute} }, func(w *W, idx int) { runProbe(w, idx, p.id) })
		}
		if p.id == "C12" {
			mp.add(e2PhaseFor("C12", e2Oracles{keys: true}))
			mp.add(racePlan(4, 40), func(w *W, idx int) {
				withWatchdog(w, idx, fmt.Sprintf("E3:key-map:round%d", idx), 5*time.Minute, func() { keyMapRound(w, idx) })
			})
		}
		if p.id == "C02" {
			// "until that moment none of its changes is visible to any other reader": also not half of them while
			// the commit is being applied - the torn-row rounds of C10, plain build
			mp.add(func(tier string) Plan {
				n := 1
				if tier == "thorough" {
					n = 8
				}
				return Plan{Cases: n, Workers: 1, MaxProcs: 16, Timeout: 40 * time.Minute, HangIsViol: true}
			}, func(w *W, idx int) {
				withWatchdog(w, idx, fmt.Sprintf("E3:torn:round%d", idx+300), 5*time.Minute, func() { tornRound(w, idx+300) })
			})
		}
		if p.id == "C02" {
			// ... nor may a snapshot taken beside the commit contain half of it
			mp.add(func(tier string) Plan {
				n := 2
				if tier == "thorough" {
					n = 16
				}
				return Plan{Cases: n, Workers: 2, MaxProcs: 8, Timeout: 40 * time.Minute, HangIsViol: true}
			}, func(w *W, idx int) {
				withWatchdog(w, idx, fmt.Sprintf("E3:torn-snapshot:round%d", idx), 5*time.Minute, func() { tornSnapshotRound(w, idx) })
			})
		}
		if p.id == "C11" || p.id == "C02" {
			mp.add(func(tier string) Plan {
				n := 2
				if tier == "thorough" {
					n = 16
				}
				return Plan{Cases: n, Workers: 2, MaxProcs: 8, Timeout: 40 * time.Minute, HangIsViol: true}
			}, func(w *W, idx int) {
				withWatchdog(w, idx, fmt.Sprintf("E3:reserve-beside-rollback:round%d", idx), 5*time.Minute, func() { reserveRound(w, idx) })
			})
		}
		if p.id == "C11" {
			mp.add(countPlan, func(w *W, idx int) {
				withWatchdog(w, idx, fmt.Sprintf("E3:count:round%d", idx), 5*time.Minute, func() { countRound(w, idx) })
			})
		}
		if p.id == "C07" {
			// states larger than one s2 block: the block boundary swept over every byte that is not filler
			mp.add(func(string) Plan { return Plan{Cases: 8, Workers: 8, MaxProcs: 2, Timeout: 30 * time.Minute} }, func(w *W, idx int) { s2SweepCase(w, idx, 8) })
			// sources that grow into a new block while the snapshot is being written
			mp.add(func(tier string) Plan {
				n := 8
				if tier == "thorough" {
					n = 64
				}
				return Plan{Cases: n, Workers: 8, MaxProcs: 1, Timeout: 30 * time.Minute}
			}, func(w *W, idx int) { restoreGrowthCase(w, idx) })
		}
		if p.id == "C19" {
			mp.add(racePlan(4, 40), func(w *W, idx int) {
				withWatchdog(w, idx, fmt.Sprintf("E3:trigger-beside-drops:round%d", idx), 5*time.Minute, func() { triggerRound(w, idx) })
			})
		}
		if p.id == "C16" {
			// sorted indexes created while writers commit (the index-build rounds of C03; their last part checks Ascend)
			mp.add(racePlan(2, 20), func(w *W, idx int) {
				withWatchdog(w, idx, fmt.Sprintf("E3:index-build-beside-writers:round%d", idx), 5*time.Minute, func() { indexBuildRound(w, idx) })
			})
		}
		if p.id == "C03" {
			mp.add(racePlan(4, 40), func(w *W, idx int) {
				withWatchdog(w, idx, fmt.Sprintf("E3:index-build-beside-writers:round%d", idx), 5*time.Minute, func() { indexBuildRound(w, idx) })
			})
		}
		if p.id == "C11" {
			mp.add(racePlan(6, 60), func(w *W, idx int) {
				withWatchdog(w, idx, fmt.Sprintf("E3:insert-ownership:round%d", idx), 5*time.Minute, func() { insertRound(w, idx) })
			})
		}
		register(&Property{
			ID: p.id, Level: "exploration", Rule: p.rule,
			Assume: []string{"single goroutine in the lock-step histories (concurrency is decided by the E2/E3 monitors)", "generator respects the model boundaries of DESIGN.md 3.3",
				"the reference model (harness/cmd/vcheck/model.go) encodes the property statement correctly"},
			Plan:      mp.Plan,
			Run:       mp.Run,
			MinEvents: p.min,
		})
	}
}
