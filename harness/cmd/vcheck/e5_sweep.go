package main

// e5_sweep.go — C07: snapshot/restore when the uncompressed state is larger than one s2 block
// (1 MiB). A reader of the s2 stream gets short reads at block boundaries; every field of the
// state format must survive being split there. Eighteen cells hold filler strings whose lengths are
// chosen so that the boundary falls on byte t of everything that is not filler, for every t.

import (
	"bytes"
	"fmt"
	"io"

	"github.com/kelindar/column/commit"
	"github.com/klauspost/compress/s2"
)

const s2Block = 1 << 20

func sweepWorld(filler int) *World {
	wd := newWorld(64, false, false)
	kinds := []Kind{KString, KInt, KInt16, KUint64, KFloat32, KBool, KString, KEnum, KRecord, KStringCat}
	names := []string{"big", "i", "i16", "u64", "f32", "b", "s", "e", "r", "sc"}
	for i, k := range kinds {
		wd.createColumn(ColSpec{names[i], k})
	}
	g := newGen(7, "edge")
	var ops []Op
	for r := 0; r < 4; r++ {
		var ws []Write
		for i, k := range kinds {
			if names[i] == "big" {
				continue
			}
			if (r+i)%4 != 3 { // some cells stay absent
				ws = append(ws, Write{Col: names[i], V: g.value(ColSpec{names[i], k})})
			}
		}
		ops = append(ops, Op{T: "ins", W: ws})
	}
	// the filler: 18 rows holding strings of at most 65 000 bytes (values beyond 65 535 bytes are outside the buffer format)
	left := filler
	for r := 0; r < 18; r++ {
		n := left
		if n > 65000 {
			n = 65000
		}
		left -= n
		ops = append(ops, Op{T: "ins", W: []Write{{Col: "big", V: Val{S: string(bytes.Repeat([]byte{byte('a' + r)}, n))}}}})
	}
	if left > 0 {
		panic("filler too large")
	}
	t := TxnSpec{Ops: ops}
	wd.execTxn(wd.P, &t, false, nil)
	wd.M.Apply(t.Ops)
	// two rows in block 1 and one in block 2 (crafted commits through Replay)
	for _, off := range []uint32{16384 + 3, 16384 + 77, 32768 + 1} {
		mk := func(name string) *commit.Buffer { b := commit.NewBuffer(64); b.Reset(name); return b }
		rb, ib, sb, bb := mk("row"), mk("i"), mk("s"), mk("b")
		rb.PutOperation(commit.Insert, off)
		ib.PutInt64(commit.Put, off, int64(off))
		sb.PutString(commit.Put, off, fmt.Sprintf("row-%d", off))
		bb.PutOperation(commit.PutTrue, off)
		if err := wd.P.Replay(commit.Commit{ID: 1, Chunk: commit.Chunk(off >> 14), Updates: []*commit.Buffer{rb, ib, sb, bb}}); err != nil {
			panic(err)
		}
		wd.M.Live[off] = true
		wd.M.Cells["i"][off] = Val{B: uint64(off)}
		wd.M.Cells["s"][off] = Val{S: fmt.Sprintf("row-%d", off)}
		wd.M.Cells["b"][off] = Val{B: 1}
	}
	return wd
}

func uncompressedLen(snap []byte) (int, error) {
	n, err := io.Copy(io.Discard, s2.NewReader(bytes.NewReader(snap)))
	return int(n), err
}

func sweepSnapshot(wd *World) ([]byte, int, error) {
	var buf bytes.Buffer
	if err := wd.P.Snapshot(&buf); err != nil {
		return nil, 0, err
	}
	n, err := uncompressedLen(buf.Bytes())
	return buf.Bytes(), n, err
}

// s2SweepCase handles the offsets t = idx, idx+cases, idx+2*cases, ...
func s2SweepCase(w *W, idx, cases int) {
	caseID := fmt.Sprintf("E5:s2-block-boundary-sweep:%d", idx)
	w.Begin(idx, caseID)
	failed := false
	fail := func(detail string, t int) {
		failed = true
		w.Violate(idx, caseID, detail, "", map[string]any{"phase": 2, "idx": idx, "t": t})
	}
	small := sweepWorld(0)
	_, s0, err := sweepSnapshot(small)
	small.Close()
	if err != nil {
		fail("snapshot of the small collection failed: "+err.Error(), -1)
		return
	}
	span := s0 + 32 // everything that is not filler
	const step = 1  // all offsets in both tiers: the sweep is cheap
	var restores, boundaryInside int64
	for t := idx; t < span; t += cases * step {
		// filler such that the uncompressed state is 1 MiB + t bytes long: the block boundary then lies t bytes before its end
		filler := s2Block + t - s0
		var snap []byte
		var wd *World
		for try := 0; try < 4; try++ {
			wd = sweepWorld(filler)
			var u int
			snap, u, err = sweepSnapshot(wd)
			if err != nil {
				fail("snapshot failed: "+err.Error(), t)
				wd.Close()
				return
			}
			if u == s2Block+t {
				break
			}
			filler += s2Block + t - u // length prefixes grew: adjust and rebuild
			wd.Close()
			wd = nil
		}
		if wd == nil {
			w.Inconclusive(caseID, fmt.Sprintf("could not lay out an uncompressed state of exactly 1 MiB + %d bytes", t))
			continue
		}
		boundaryInside++
		sv := wd.M.view(nil)
		restored, err := wd.buildLike(64, nil, false, 0)
		if err != nil {
			panic(err)
		}
		err = restored.Restore(bytes.NewReader(snap))
		restores++
		if err != nil {
			fail(fmt.Sprintf("uncompressed state of 1 MiB + %d bytes (the 1 MiB block boundary of the s2 stream lies %d bytes before its end): Restore failed: %v", t, t, err), t)
		} else if d := cmpStates(dumpState(wd.P, sv), dumpState(restored, sv), "original", "restored", sv); d != "" {
			fail(fmt.Sprintf("uncompressed state of 1 MiB + %d bytes (the 1 MiB block boundary of the s2 stream lies %d bytes before its end): %s", t, t, d), t)
		}
		restored.Close()
		wd.Close()
		if failed {
			break
		}
	}
	w.Stat("restores_with_s2_block_boundary_inside_the_state", restores)
	w.Stat("restores", restores)
	w.StatMax("non_filler_state_bytes_swept", int64(span))
	w.Eval(hashOf("s2sweep", idx), boundaryInside > 0)
}

// restoreGrowthCase (C07): a collection filled block by block exactly to a block boundary is
// snapshotted while transactions commit at the snapshot's hook points, among them the insert that
// opens the next block - before the state is written or after it (the new block then exists in
// the recorded commits only). The complete stream must restore to the primary as it was when
// Snapshot returned. (The sources are E5's; C13 cuts them, C07 restores them whole.)
func restoreGrowthCase(w *W, idx int) {
	caseID := fmt.Sprintf("E5:restore-growing-source:%d", idx)
	w.Begin(idx, caseID)
	src := idx*3 + 2
	s := buildSnapshotStream(w, src, w.Seed*15485863+int64(src)*179424673)
	defer s.wd.Close()
	o := s.restoreFrom(s.data)
	w.Stat("restores", 1)
	w.Stat("restores_of_sources_growing_into_a_new_block", 1)
	switch {
	case o.hung || o.panic != "":
		w.Violate(idx, caseID, fmt.Sprintf("Restore of the complete snapshot: hung=%v panic=%s", o.hung, o.panic), "", map[string]any{"phase": 2, "idx": idx})
	case o.err != nil:
		w.Violate(idx, caseID, "Restore of the complete snapshot failed: "+o.err.Error(), "", map[string]any{"phase": 2, "idx": idx})
	default:
		if d := cmpStates(s.final, o.st, "original", "restored", s.sv); d != "" {
			w.Violate(idx, caseID, fmt.Sprintf("a %d-block source, %d commits recorded while the snapshot ran (one of them opens block %d): %s", len(s.blockModels), len(s.tail), len(s.blockModels), d), "", map[string]any{"phase": 2, "idx": idx})
		}
	}
	w.Eval(hashOf("restore-growth", idx, len(s.data)), s.dense && len(s.tail) > 0)
}
