package main

// e1_world.go — a "world": the real collection under test (P), the reference model (M),
// an optional twin (T, receives only committed transactions), an optional stream replica (R),
// a recording logger and trigger logs; plus the transaction executor.

import (
	"errors"
	"fmt"
	"math"
	"runtime"
	"runtime/debug"
	"sync"
	"sync/atomic"

	"github.com/kelindar/column"
	"github.com/kelindar/column/commit"
)

var errInjected = errors.New("injected: row callback failed")
var errAbort = errors.New("injected: transaction body returned an error")

// recLogger records every commit it receives (cloned; the buffers are reused by the library).
type recLogger struct {
	mu      sync.Mutex
	commits []commit.Commit
	seq     []int64 // arrival sequence numbers
	next    int64
	// failEvery > 0: every failEvery-th Append reports an error after having recorded the commit (a
	// logger that fails is still a logger the commit was emitted to)
	failEvery int64
	// yieldEvery > 0: every yieldEvery-th Append yields the processor first, as a slow writer would
	yieldEvery int64
	calls      int64
}

var errLoggerFault = errors.New("injected logger fault")

func (l *recLogger) Append(c commit.Commit) error {
	if l.yieldEvery > 0 && atomic.AddInt64(&l.calls, 1)%l.yieldEvery == 0 {
		runtime.Gosched()
	}
	cl := c.Clone()
	cl.ID = c.ID // Clone is not required by any property to keep the id; the channel path is checked separately
	l.mu.Lock()
	l.commits = append(l.commits, cl)
	l.next++
	l.seq = append(l.seq, l.next)
	fail := l.failEvery > 0 && l.next%l.failEvery == 0
	l.mu.Unlock()
	if fail {
		return errLoggerFault
	}
	return nil
}

func (l *recLogger) take() []commit.Commit {
	l.mu.Lock()
	out := l.commits
	l.commits = nil
	l.seq = nil
	l.mu.Unlock()
	return out
}

type World struct {
	viaOf bool // alternates: CreateColumn(name, ForX()) / CreateColumnsOf({name: sample})
	Cap   int
	P     *column.Collection
	M     *Model
	Log   *recLogger
	T     *column.Collection
	R     *column.Collection
	Keys  []string

	trigMu  sync.Mutex
	trigLog map[string][]TrigEvent // trigger name -> events since last cut
	gen     int                    // generation of P (trigger closures of older generations are ignored)

	idsSeen map[uint64]bool
	closed  []*column.Collection
}

func newWorld(capacity int, twin, replica bool) *World {
	w := &World{Cap: capacity, M: newModel(), Log: &recLogger{}, trigLog: map[string][]TrigEvent{}, idsSeen: map[uint64]bool{}}
	w.P = w.newCollection(w.Log)
	if twin {
		w.T = w.newCollection(nil)
	}
	if replica {
		w.R = w.newCollection(nil)
	}
	return w
}

func (w *World) newCollection(logger commit.Logger) *column.Collection {
	opts := column.Options{Capacity: w.Cap, Vacuum: 1 << 40}
	if logger != nil {
		opts.Writer = logger
	}
	return column.NewCollection(opts)
}

func (w *World) Close() {
	for _, c := range []*column.Collection{w.P, w.T, w.R} {
		if c != nil {
			c.Close()
		}
	}
	for _, c := range w.closed {
		c.Close()
	}
}

func (w *World) all() []*column.Collection {
	out := []*column.Collection{w.P}
	if w.T != nil {
		out = append(out, w.T)
	}
	if w.R != nil {
		out = append(out, w.R)
	}
	return out
}

// dropColumn removes a column everywhere (schema changes are not part of the change stream).
func (w *World) dropColumn(name string) {
	for _, c := range w.all() {
		c.DropColumn(name)
	}
	m := w.M
	for i, c := range m.Cols {
		if c.Name == name {
			m.Cols = append(m.Cols[:i:i], m.Cols[i+1:]...)
			break
		}
	}
	delete(m.Cells, name)
}

// zeroOf: a Go value whose reflect kind makes CreateColumnsOf choose the column type of kind k
func zeroOf(k Kind) (any, bool) {
	switch k {
	case KInt:
		return int(0), true
	case KInt16:
		return int16(0), true
	case KInt32:
		return int32(0), true
	case KInt64:
		return int64(0), true
	case KUint:
		return uint(0), true
	case KUint16:
		return uint16(0), true
	case KUint32:
		return uint32(0), true
	case KUint64:
		return uint64(0), true
	case KFloat32:
		return float32(0), true
	case KFloat64:
		return float64(0), true
	case KBool:
		return false, true
	case KString:
		return "", true
	}
	return nil, false
}

func (w *World) createColumn(c ColSpec) error {
	for _, col := range w.all() {
		// every other column of a plain kind is created from a sample value (CreateColumnsOf), as documented
		if z, ok := zeroOf(c.Kind); ok && w.viaOf {
			if err := col.CreateColumnsOf(map[string]any{c.Name: z}); err != nil {
				return err
			}
			continue
		}
		if err := col.CreateColumn(c.Name, makeColumn(c.Kind)); err != nil {
			return err
		}
	}
	w.viaOf = !w.viaOf
	w.M.addCol(c)
	return nil
}

func (w *World) createIndex(ix IndexSpec) error {
	for _, col := range w.all() {
		p := ix.P
		if err := col.CreateIndex(ix.Name, ix.Col, func(r column.Reader) bool { return p.onReader(r) }); err != nil {
			return err
		}
	}
	for i, old := range w.M.Idx {
		if old.Name == ix.Name {
			w.M.Idx = append(append([]IndexSpec{}, w.M.Idx[:i]...), w.M.Idx[i+1:]...) // re-defined under the same name
			break
		}
	}
	w.M.Idx = append(w.M.Idx, ix)
	return nil
}

func (w *World) dropIndex(name string) error {
	for _, col := range w.all() {
		if err := col.DropIndex(name); err != nil {
			return err
		}
	}
	for i, ix := range w.M.Idx {
		if ix.Name == name {
			w.M.Idx = append(append([]IndexSpec{}, w.M.Idx[:i]...), w.M.Idx[i+1:]...)
			break
		}
	}
	return nil
}

func (w *World) createSortIndex(sx SortSpec) error {
	for _, col := range w.all() {
		if err := col.CreateSortIndex(sx.Name, sx.Col); err != nil {
			return err
		}
	}
	w.M.Sorted = append(w.M.Sorted, sx)
	return nil
}

func (w *World) trigFn(gen int, t TrigSpec) func(r column.Reader) {
	kind := w.M.col(t.Col).Kind
	return func(r column.Reader) {
		ev := TrigEvent{Off: r.Index(), Delete: r.IsDelete()}
		if !ev.Delete {
			switch {
			case kind.Float():
				if kind == KFloat32 {
					// Reader.Float() is a float64: the conversion there and back quiets a signalling NaN
					ev.V = Val{B: uint64(float32bits(float32(r.Float()))), Arith: true}
				} else {
					ev.V = Val{B: float64bits(r.Float())}
				}
			case kind.Signed():
				ev.V = Val{B: uint64(int64(r.Int()))}
			case kind.Unsigned():
				ev.V = Val{B: uint64(r.Uint())}
			case kind == KBool:
				ev.V = Val{B: 1}
			default:
				ev.V = Val{S: string(append([]byte(nil), r.Bytes()...))}
			}
		}
		w.trigMu.Lock()
		if gen == w.gen {
			w.trigLog[t.Name] = append(w.trigLog[t.Name], ev)
		}
		w.trigMu.Unlock()
	}
}

func (w *World) createTrigger(t TrigSpec) error {
	if err := w.P.CreateTrigger(t.Name, t.Col, w.trigFn(w.gen, t)); err != nil {
		return err
	}
	w.M.Trig = append(w.M.Trig, t)
	return nil
}

func (w *World) dropTrigger(name string) error {
	if err := w.P.DropTrigger(name); err != nil {
		return err
	}
	for i, t := range w.M.Trig {
		if t.Name == name {
			w.M.Trig = append(append([]TrigSpec{}, w.M.Trig[:i]...), w.M.Trig[i+1:]...)
			break
		}
	}
	return nil
}

func (w *World) cutTriggers() map[string][]TrigEvent {
	w.trigMu.Lock()
	out := w.trigLog
	w.trigLog = map[string][]TrigEvent{}
	w.trigMu.Unlock()
	return out
}

// buildLike creates a fresh collection with the same schema as the model (columns, indexes,
// sorted indexes; triggers only when withTriggers) — used for restore targets.
func (w *World) buildLike(capacity int, logger commit.Logger, withTriggers bool, gen int) (*column.Collection, error) {
	opts := column.Options{Capacity: capacity, Vacuum: 1 << 40}
	if logger != nil {
		opts.Writer = logger
	}
	c := column.NewCollection(opts)
	for _, cs := range w.M.Cols {
		if cs.Name == "expire" {
			continue
		}
		if err := c.CreateColumn(cs.Name, makeColumn(cs.Kind)); err != nil {
			return nil, err
		}
	}
	for _, ix := range w.M.Idx {
		p := ix.P
		if err := c.CreateIndex(ix.Name, ix.Col, func(r column.Reader) bool { return p.onReader(r) }); err != nil {
			return nil, err
		}
	}
	for _, sx := range w.M.Sorted {
		if err := c.CreateSortIndex(sx.Name, sx.Col); err != nil {
			return nil, err
		}
	}
	if withTriggers {
		for _, t := range w.M.Trig {
			if err := c.CreateTrigger(t.Name, t.Col, w.trigFn(gen, t)); err != nil {
				return nil, err
			}
		}
	}
	return c, nil
}

// ---------------------------------------------------------------------------------------------
// Executor

type execReport struct {
	Err      error
	OwnReads []string // C02(d): reads inside the transaction that did not return the committed value
	KeyDiffs []string // C12: key operations whose outcome differs from the model's key table
	InsDiffs []string // C11: inserts that returned an offset the model holds live / reserved
	Reserved []uint32 // offsets reserved by successful inserts of this transaction (in order)
	Panic    string
}

// execTxn runs the transaction on collection c. When record is true the outcome of every
// operation is written into the spec (offsets, errors) and compared with the model's
// expectation; otherwise (twin) the offsets recorded earlier are used for row references.
func (w *World) execTxn(c *column.Collection, spec *TxnSpec, oracle bool, observe func(afterOp int, reserved []uint32)) (rep execReport) {
	const record = true
	m := w.M
	resolve := func(o *Op) (uint32, bool) {
		if o.Ref > 0 {
			src := &spec.Ops[o.Ref-1]
			return src.GotOff, src.HasOff
		}
		return o.Off, true
	}
	var delAll []uint32
	defer func() {
		for _, off := range delAll {
			spec.Ops = append(spec.Ops, Op{T: "del", Off: off, GotOff: off, HasOff: true, Done: true})
		}
	}()
	body := func(txn *column.Txn) error {
		for i := range spec.Ops {
			o := &spec.Ops[i]
			o.Done = true
			rowFn := func(r column.Row) error {
				off := r.Index()
				o.GotOff, o.HasOff = off, true
				o.NoOpW = make([]bool, len(o.W))
				for wi, wr := range o.W {
					cs := m.col(wr.Col)
					if cs.Kind == KKey && record {
						// SetKey to a key that exists in the committed table is defined as a no-op
						if _, exists := m.keyOffset(wr.V.S); exists {
							o.NoOpW[wi] = true
						}
					}
					writeCell(txn, r, cs, wr)
					if oracle {
						// C02(d): the transaction's own reads keep returning the committed value
						got, ok := readCell(txn, r, cs, false)
						want, wok := m.Cells[cs.Name][off]
						if !m.Live[off] {
							wok = false
						}
						if ok != wok || (ok && !valEqual(cs.Kind, got, want)) {
							if len(rep.OwnReads) < 5 {
								rep.OwnReads = append(rep.OwnReads, fmt.Sprintf("after buffering %s on row %d the transaction reads (%v,%s), committed value is (%v,%s)",
									wr.Col, off, ok, got.show(cs.Kind), wok, want.show(cs.Kind)))
							}
						}
					}
				}
				if o.Fail {
					return errInjected
				}
				return nil
			}
			var err error
			switch o.T {
			case "ins":
				var off uint32
				off, err = txn.Insert(rowFn)
				if record {
					if err == nil && (!o.HasOff || off != o.GotOff) {
						rep.InsDiffs = append(rep.InsDiffs, fmt.Sprintf("Insert returned offset %d but its callback ran on row %d", off, o.GotOff))
					}
					if o.HasOff {
						w.checkFresh(&rep, o.GotOff)
						if err == nil {
							rep.Reserved = append(rep.Reserved, o.GotOff)
						}
					}
				}
			case "at":
				off, ok := resolve(o)
				if !ok {
					continue
				}
				err = txn.QueryAt(off, rowFn)
			case "delall":
				// the rows Range visits under the chain are the rows DeleteAll must delete (that Range visits the
				// right rows is C04's business): they are appended to the transaction as plain deletes
				if o.Created {
					continue // executed before (twin): the appended deletes do the work
				}
				o.Created = true
				applyChain(txn, m, o.Chain)
				txn.Range(func(i uint32) { delAll = append(delAll, i) })
				txn.DeleteAll()
			case "del":
				off, ok := resolve(o)
				if !ok {
					continue
				}
				deleted := txn.DeleteAt(off)
				if record {
					o.GotOff, o.HasOff = off, true
					if !deleted {
						o.Err = "DeleteAt returned false"
						if m.Live[off] {
							rep.InsDiffs = append(rep.InsDiffs, fmt.Sprintf("DeleteAt(%d) returned false for a live row", off))
						}
					}
				}
			case "inskey":
				_, exists := m.keyOffset(o.Key)
				err = txn.InsertKey(o.Key, rowFn)
				o.Created = o.HasOff
				if record {
					if exists && err == nil {
						rep.KeyDiffs = append(rep.KeyDiffs, fmt.Sprintf("InsertKey(%q) succeeded although the key exists", o.Key))
					}
					if !exists && err != nil && !o.Fail {
						rep.KeyDiffs = append(rep.KeyDiffs, fmt.Sprintf("InsertKey(%q) failed (%v) although the key is absent", o.Key, err))
					}
					if o.HasOff {
						w.checkFresh(&rep, o.GotOff)
						if err == nil {
							rep.Reserved = append(rep.Reserved, o.GotOff)
						}
					}
				}
			case "upskey":
				want, exists := m.keyOffset(o.Key)
				err = txn.UpsertKey(o.Key, rowFn)
				o.Created = o.HasOff && !m.Live[o.GotOff]
				if record && o.HasOff {
					if exists && o.GotOff != want {
						rep.KeyDiffs = append(rep.KeyDiffs, fmt.Sprintf("UpsertKey(%q) worked on row %d, the key is held by row %d", o.Key, o.GotOff, want))
					}
					if !exists {
						w.checkFresh(&rep, o.GotOff)
						if err == nil {
							rep.Reserved = append(rep.Reserved, o.GotOff)
						}
					}
				}
				if record && err != nil && !o.Fail {
					rep.KeyDiffs = append(rep.KeyDiffs, fmt.Sprintf("UpsertKey(%q) failed: %v", o.Key, err))
				}
			case "qkey":
				want, exists := m.keyOffset(o.Key)
				err = txn.QueryKey(o.Key, rowFn)
				if record {
					if exists && err != nil && !o.Fail {
						rep.KeyDiffs = append(rep.KeyDiffs, fmt.Sprintf("QueryKey(%q) failed (%v) although row %d holds the key", o.Key, err, want))
					}
					if !exists && err == nil {
						rep.KeyDiffs = append(rep.KeyDiffs, fmt.Sprintf("QueryKey(%q) succeeded (row %d) although the key is absent", o.Key, o.GotOff))
					}
					if exists && o.HasOff && o.GotOff != want {
						rep.KeyDiffs = append(rep.KeyDiffs, fmt.Sprintf("QueryKey(%q) reached row %d, the key is held by row %d", o.Key, o.GotOff, want))
					}
				}
			case "delkey":
				if len(o.Chain) > 0 {
					applyChain(txn, m, o.Chain)
				}
				want, exists := m.keyOffset(o.Key)
				err = txn.DeleteKey(o.Key)
				if record {
					if exists {
						o.GotOff, o.HasOff = want, true
					}
					if exists && err != nil {
						rep.KeyDiffs = append(rep.KeyDiffs, fmt.Sprintf("DeleteKey(%q) failed (%v) although row %d holds the key", o.Key, err, want))
					}
					if !exists && err == nil {
						rep.KeyDiffs = append(rep.KeyDiffs, fmt.Sprintf("DeleteKey(%q) succeeded although the key is absent", o.Key))
					}
				}
			}
			if err != nil {
				if record {
					o.Err = err.Error()
				}
				if o.Swallow {
					err = nil // the body ignores the failure and carries on; the transaction ends in an error anyway
					continue
				}
				return err
			}
			if observe != nil {
				observe(i, rep.Reserved)
			}
		}
		if spec.Abort {
			return errAbort
		}
		return nil
	}
	func() {
		defer func() {
			if p := recover(); p != nil {
				rep.Panic = fmt.Sprintf("%v\n%s", p, trimStack(debug.Stack()))
			}
		}()
		rep.Err = c.Query(body)
	}()
	return rep
}

// checkFresh: C11 — an offset handed out by an insert must not be live.
func (w *World) checkFresh(rep *execReport, off uint32) {
	if w.M.Live[off] {
		rep.InsDiffs = append(rep.InsDiffs, fmt.Sprintf("insert received offset %d which is occupied by a live row", off))
	}
	for _, r := range rep.Reserved {
		if r == off {
			rep.InsDiffs = append(rep.InsDiffs, fmt.Sprintf("insert received offset %d which another insert of the same transaction holds", off))
		}
	}
}

func float32bits(f float32) uint32 { return math.Float32bits(f) }
func float64bits(f float64) uint64 { return math.Float64bits(f) }
