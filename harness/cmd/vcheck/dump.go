package main

// dump.go — full-state dump of a real collection through its public API, and the
// comparison functions that serve as oracles.

import (
	"fmt"
	"hash/fnv"
	"sort"

	"github.com/kelindar/column"
)

type State struct {
	Count    int
	TxnCount int
	Rows     []uint32
	RangeErr string
	Cells    map[string]map[uint32]Val
	ReadErr  []string
	Idx      map[string][]uint32        // With(index).Range
	IdxBool  map[string]map[uint32]bool // Row.Bool(index) == true
	Sorted   map[string][]uint32        // Ascend order
	SortedV  map[string][]string        // values read at each Ascend callback
	Keys     map[string]int64           // QueryKey result: offset, or -1 when it returned an error
	KeyErr   []string
	Focus    map[uint32]bool
}

func (st *State) focused(off uint32) bool { return st.Focus == nil || st.Focus[off] }

// schemaView is what the dump needs to know about the collection.
type schemaView struct {
	Cols   []ColSpec
	KeyCol string
	Idx    []IndexSpec
	Sorted []SortSpec
	Keys   []string        // key alphabet to look up
	Focus  map[uint32]bool // nil = every row; otherwise column values are read only for these rows (dense layouts)
}

func (sv schemaView) focused(off uint32) bool { return sv.Focus == nil || sv.Focus[off] }

func (m *Model) view(keys []string) schemaView {
	return schemaView{Cols: m.Cols, KeyCol: m.KeyCol, Idx: m.Idx, Sorted: m.Sorted, Keys: keys, Focus: m.Focus}
}

func dumpState(c *column.Collection, sv schemaView) *State {
	st := &State{Cells: map[string]map[uint32]Val{}, Idx: map[string][]uint32{}, IdxBool: map[string]map[uint32]bool{},
		Sorted: map[string][]uint32{}, SortedV: map[string][]string{}, Keys: map[string]int64{}, Focus: sv.Focus}
	for _, col := range sv.Cols {
		st.Cells[col.Name] = map[uint32]Val{}
	}
	for _, ix := range sv.Idx {
		st.IdxBool[ix.Name] = map[uint32]bool{}
	}
	st.Count = c.Count()
	c.Query(func(txn *column.Txn) error {
		st.TxnCount = txn.Count()
		// pass 1: Range, reading through the Txn accessors with the cursor set by Range
		type cell struct {
			v  Val
			ok bool
		}
		viaTxn := map[uint32][]cell{}
		last := int64(-1)
		txn.Range(func(idx uint32) {
			if int64(idx) <= last && st.RangeErr == "" {
				st.RangeErr = fmt.Sprintf("Range visited %d after %d (not strictly ascending)", idx, last)
			}
			if txn.Index() != idx && st.RangeErr == "" {
				st.RangeErr = fmt.Sprintf("Range callback idx=%d but cursor=%d", idx, txn.Index())
			}
			last = int64(idx)
			st.Rows = append(st.Rows, idx)
			if !sv.focused(idx) {
				return
			}
			cs := make([]cell, len(sv.Cols))
			for i, col := range sv.Cols {
				if col.Kind == KKey {
					continue
				}
				v, ok := readCell(txn, column.Row{}, col, true)
				cs[i] = cell{v, ok}
			}
			viaTxn[idx] = cs
		})
		// pass 2: point reads through Row accessors and Row.Any
		for _, idx := range st.Rows {
			if !sv.focused(idx) {
				continue
			}
			txn.QueryAt(idx, func(r column.Row) error {
				if r.Index() != idx {
					st.ReadErr = append(st.ReadErr, fmt.Sprintf("QueryAt(%d): Row.Index()=%d", idx, r.Index()))
				}
				for i, col := range sv.Cols {
					v, ok := readCell(txn, r, col, false)
					if ok {
						st.Cells[col.Name][idx] = v
					}
					if col.Kind != KKey {
						t := viaTxn[idx][i]
						if t.ok != ok || (ok && !valEqual(col.Kind, t.v, v)) {
							st.ReadErr = append(st.ReadErr, fmt.Sprintf("row %d col %s: Txn accessor (%v,%s) != Row accessor (%v,%s)", idx, col.Name, t.ok, t.v.show(col.Kind), ok, v.show(col.Kind)))
						}
					}
					av, aok, aerr := readAny(r, col)
					if aerr != "" || aok != ok || (ok && !valEqual(col.Kind, av, v)) {
						st.ReadErr = append(st.ReadErr, fmt.Sprintf("row %d col %s: Any (%v,%s %s) != typed (%v,%s)", idx, col.Name, aok, av.show(col.Kind), aerr, ok, v.show(col.Kind)))
					}
				}
				for _, ix := range sv.Idx {
					if r.Bool(ix.Name) {
						st.IdxBool[ix.Name][idx] = true
					}
				}
				return nil
			})
		}
		return nil
	})
	for _, ix := range sv.Idx {
		rows := []uint32{}
		c.Query(func(txn *column.Txn) error {
			txn.With(ix.Name).Range(func(idx uint32) { rows = append(rows, idx) })
			return nil
		})
		st.Idx[ix.Name] = rows
	}
	for _, sx := range sv.Sorted {
		rows := []uint32{}
		vals := []string{}
		var col ColSpec
		for _, cs := range sv.Cols {
			if cs.Name == sx.Col {
				col = cs
			}
		}
		c.Query(func(txn *column.Txn) error {
			txn.Ascend(sx.Name, func(idx uint32) {
				rows = append(rows, idx)
				v, ok := readCell(txn, column.Row{}, col, true)
				if !ok {
					vals = append(vals, "\x00<absent>")
				} else {
					vals = append(vals, v.S)
				}
			})
			return nil
		})
		st.Sorted[sx.Name] = rows
		st.SortedV[sx.Name] = vals
	}
	if sv.KeyCol != "" {
		keys := map[string]bool{}
		for _, k := range sv.Keys {
			keys[k] = true
		}
		for _, v := range st.Cells[sv.KeyCol] {
			keys[v.S] = true
		}
		for k := range keys {
			off := int64(-1)
			err := c.QueryKey(k, func(r column.Row) error {
				off = int64(r.Index())
				if got, ok := r.Key(); !ok || got != k {
					st.KeyErr = append(st.KeyErr, fmt.Sprintf("QueryKey(%q) reached row %d whose Key() is (%q,%v)", k, r.Index(), got, ok))
				}
				return nil
			})
			if err != nil {
				off = -1
			}
			st.Keys[k] = off
		}
	}
	return st
}

func (st *State) hash() uint64 {
	h := fnv.New64a()
	fmt.Fprintf(h, "%d|%v|", st.Count, st.Rows)
	cols := make([]string, 0, len(st.Cells))
	for c := range st.Cells {
		cols = append(cols, c)
	}
	sort.Strings(cols)
	for _, c := range cols {
		offs := make([]uint32, 0, len(st.Cells[c]))
		for o := range st.Cells[c] {
			offs = append(offs, o)
		}
		sort.Slice(offs, func(i, j int) bool { return offs[i] < offs[j] })
		for _, o := range offs {
			v := st.Cells[c][o]
			fmt.Fprintf(h, "%s:%d=%d,%s|", c, o, v.B, v.S)
		}
	}
	return h.Sum64()
}

// ---------------------------------------------------------------------------------------------
// Oracles. Each returns "" when the property's statement holds on the dump.

func sameRows(a, b []uint32) bool {
	if len(a) != len(b) {
		return false
	}
	for i := range a {
		if a[i] != b[i] {
			return false
		}
	}
	return true
}

func rowsDiff(got, want []uint32) string {
	g := map[uint32]bool{}
	w := map[uint32]bool{}
	for _, x := range got {
		g[x] = true
	}
	for _, x := range want {
		w[x] = true
	}
	var extra, missing []uint32
	for _, x := range got {
		if !w[x] {
			extra = append(extra, x)
		}
	}
	for _, x := range want {
		if !g[x] {
			missing = append(missing, x)
		}
	}
	if len(extra) > 5 {
		extra = extra[:5]
	}
	if len(missing) > 5 {
		missing = missing[:5]
	}
	return fmt.Sprintf("got %d rows want %d; extra %v missing %v", len(got), len(want), extra, missing)
}

// cmpLive: C11/C02 — rows visited, Count and Txn.Count equal the model's live set.
func cmpLive(st *State, m *Model) string {
	want := m.liveSorted()
	if st.RangeErr != "" {
		return st.RangeErr
	}
	if !sameRows(st.Rows, want) {
		return "live rows: " + rowsDiff(st.Rows, want)
	}
	if st.Count != len(want) {
		return fmt.Sprintf("Collection.Count()=%d, live rows=%d", st.Count, len(want))
	}
	if st.TxnCount != len(want) {
		return fmt.Sprintf("Txn.Count()=%d, live rows=%d", st.TxnCount, len(want))
	}
	return ""
}

// cmpValues: C01 — every cell of every live row reads back the model's value or absent.
func cmpValues(st *State, m *Model) string {
	if len(st.ReadErr) > 0 {
		return st.ReadErr[0]
	}
	for _, c := range m.Cols {
		got := st.Cells[c.Name]
		want := m.Cells[c.Name]
		for _, off := range st.Rows {
			if !m.Live[off] || !st.focused(off) {
				continue // reported by cmpLive / not read in a focused dump
			}
			gv, gok := got[off]
			wv, wok := want[off]
			if gok != wok {
				if gok {
					return fmt.Sprintf("row %d col %s(%s): reads %s, expected absent", off, c.Name, c.Kind, gv.show(c.Kind))
				}
				return fmt.Sprintf("row %d col %s(%s): reads absent, expected %s", off, c.Name, c.Kind, wv.show(c.Kind))
			}
			if gok && !valEqual(c.Kind, gv, wv) {
				return fmt.Sprintf("row %d col %s(%s): reads %s, expected %s", off, c.Name, c.Kind, gv.show(c.Kind), wv.show(c.Kind))
			}
		}
	}
	return ""
}

// cmpIndexes: C03 — every bitmap index selects exactly the live rows whose current value
// (as read through the typed reader, i.e. from this dump) satisfies the predicate.
func cmpIndexes(st *State, sv schemaView) string {
	for _, ix := range sv.Idx {
		var col ColSpec
		for _, c := range sv.Cols {
			if c.Name == ix.Col {
				col = c
			}
		}
		var want []uint32
		for _, off := range st.Rows {
			if v, ok := st.Cells[ix.Col][off]; ok && ix.P.onVal(col.Kind, v) {
				want = append(want, off)
			}
		}
		if st.Focus != nil {
			var got []uint32
			for _, off := range st.Idx[ix.Name] {
				if st.Focus[off] {
					got = append(got, off)
				}
			}
			if !sameRows(got, want) {
				return fmt.Sprintf("index %s on %s(%s) pred %s: With() restricted to the focused rows %s", ix.Name, ix.Col, col.Kind, predString(ix.P), rowsDiff(got, want))
			}
			continue
		}
		if !sameRows(st.Idx[ix.Name], want) {
			return fmt.Sprintf("index %s on %s(%s) pred %s: With() %s", ix.Name, ix.Col, col.Kind, predString(ix.P), rowsDiff(st.Idx[ix.Name], want))
		}
		bools := make([]uint32, 0, len(want))
		for _, off := range st.Rows {
			if st.IdxBool[ix.Name][off] {
				bools = append(bools, off)
			}
		}
		if !sameRows(bools, want) {
			return fmt.Sprintf("index %s on %s(%s) pred %s: Row.Bool() %s", ix.Name, ix.Col, col.Kind, predString(ix.P), rowsDiff(bools, want))
		}
	}
	return ""
}

func predString(p Pred) string {
	switch p.Op {
	case "int<", "int>=", "len>":
		return fmt.Sprintf("%s%d", p.Op, p.I)
	case "uint>", "uint<=":
		return fmt.Sprintf("%s%d", p.Op, p.U)
	case "float<", "float>=":
		return fmt.Sprintf("%s%v", p.Op, p.F)
	case "str==", "strpre":
		return fmt.Sprintf("%s%q", p.Op, p.S)
	}
	return p.Op
}

// cmpSorted: C16 — Ascend visits exactly the live rows holding a value, each once, in
// non-decreasing order of the values read.
func cmpSorted(st *State, sv schemaView) string {
	for _, sx := range sv.Sorted {
		rows := st.Sorted[sx.Name]
		vals := st.SortedV[sx.Name]
		var want []uint32
		for _, off := range st.Rows {
			if _, ok := st.Cells[sx.Col][off]; ok {
				want = append(want, off)
			}
		}
		if st.Focus != nil { // dense layouts: judge the focused sub-sequence of the Ascend order
			var fr []uint32
			var fv []string
			for i, r := range rows {
				if st.Focus[r] {
					fr, fv = append(fr, r), append(fv, vals[i])
				}
			}
			rows, vals = fr, fv
		}
		sorted := append([]uint32(nil), rows...)
		sort.Slice(sorted, func(i, j int) bool { return sorted[i] < sorted[j] })
		for i := 1; i < len(sorted); i++ {
			if sorted[i] == sorted[i-1] {
				return fmt.Sprintf("sorted index %s: row %d visited twice", sx.Name, sorted[i])
			}
		}
		if !sameRows(sorted, want) {
			return fmt.Sprintf("sorted index %s on %s: %s", sx.Name, sx.Col, rowsDiff(sorted, want))
		}
		for i := range rows {
			if cur, ok := st.Cells[sx.Col][rows[i]]; ok && cur.S != vals[i] {
				return fmt.Sprintf("sorted index %s: value read at callback for row %d is %q, row holds %q", sx.Name, rows[i], vals[i], cur.S)
			}
			if i > 0 && vals[i] < vals[i-1] {
				return fmt.Sprintf("sorted index %s: row %d (%q) visited after row %d (%q)", sx.Name, rows[i], vals[i], rows[i-1], vals[i-1])
			}
		}
	}
	return ""
}

// cmpKeys: C12 — lookups behave like a map from key to one live row.
func cmpKeys(st *State, m *Model) string {
	if m.KeyCol == "" {
		return ""
	}
	if len(st.KeyErr) > 0 {
		return st.KeyErr[0]
	}
	// at most one live row per key (on the real collection)
	seen := map[string]uint32{}
	for _, off := range st.Rows {
		if v, ok := st.Cells[m.KeyCol][off]; ok {
			if prev, dup := seen[v.S]; dup {
				return fmt.Sprintf("two live rows hold key %q: %d and %d", v.S, prev, off)
			}
			seen[v.S] = off
		}
	}
	table := m.keyTable()
	for k, got := range st.Keys {
		offs := table[k]
		switch {
		case len(offs) == 0 && got >= 0:
			return fmt.Sprintf("QueryKey(%q) resolves to row %d but no live row should hold that key", k, got)
		case len(offs) > 0 && got < 0:
			return fmt.Sprintf("QueryKey(%q) fails but row %d holds that key", k, offs[0])
		case len(offs) == 1 && got != int64(offs[0]):
			return fmt.Sprintf("QueryKey(%q) resolves to row %d, expected row %d", k, got, offs[0])
		}
	}
	return ""
}

// cmpStates: full equality of two dumps (C02 rollback, C06 replica, C07 restore).
func cmpStates(a, b *State, an, bn string, sv schemaView) string {
	if !sameRows(a.Rows, b.Rows) {
		return fmt.Sprintf("rows of %s vs %s: %s", an, bn, rowsDiff(a.Rows, b.Rows))
	}
	if a.Count != b.Count || a.TxnCount != b.TxnCount {
		return fmt.Sprintf("Count %s=%d/%d %s=%d/%d", an, a.Count, a.TxnCount, bn, b.Count, b.TxnCount)
	}
	for _, c := range sv.Cols {
		for _, off := range a.Rows {
			if !a.focused(off) {
				continue
			}
			av, aok := a.Cells[c.Name][off]
			bv, bok := b.Cells[c.Name][off]
			if aok != bok || (aok && !valEqual(c.Kind, av, bv)) {
				return fmt.Sprintf("row %d col %s(%s): %s has (%v,%s), %s has (%v,%s)", off, c.Name, c.Kind, an, aok, av.show(c.Kind), bn, bok, bv.show(c.Kind))
			}
		}
	}
	for _, ix := range sv.Idx {
		if !sameRows(a.Idx[ix.Name], b.Idx[ix.Name]) { // the complete With() sequences, also in a focused dump
			return fmt.Sprintf("index %s: %s vs %s: %s", ix.Name, an, bn, rowsDiff(a.Idx[ix.Name], b.Idx[ix.Name]))
		}
	}
	for _, sx := range sv.Sorted {
		// equal values may legally be ordered differently: compare the value sequences
		av, bv := a.SortedV[sx.Name], b.SortedV[sx.Name]
		if len(av) != len(bv) {
			return fmt.Sprintf("sorted index %s: %s visits %d rows, %s visits %d", sx.Name, an, len(av), bn, len(bv))
		}
		for i := range av {
			if av[i] != bv[i] {
				return fmt.Sprintf("sorted index %s: position %d: %s has %q, %s has %q", sx.Name, i, an, av[i], bn, bv[i])
			}
		}
	}
	for k, ao := range a.Keys {
		if bo, ok := b.Keys[k]; ok && ao != bo {
			return fmt.Sprintf("key %q: %s resolves to %d, %s to %d", k, an, ao, bn, bo)
		}
	}
	return ""
}
