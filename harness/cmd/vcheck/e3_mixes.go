package main

// e3_mixes.go — E3 workloads for C18 (data races, termination) and C10 (no torn rows).
// Every workload is bounded by operation counts, never by time.

import (
	"bytes"
	"encoding/binary"
	"fmt"
	"strconv"
	"sync"
	"sync/atomic"
	"time"

	"github.com/kelindar/column"
)

func stressCollection(capacity int, keyed bool) *column.Collection {
	c := column.NewCollection(column.Options{Capacity: capacity, Vacuum: 1 << 40})
	if keyed {
		c.CreateColumn("k", column.ForKey())
	}
	c.CreateColumn("a", column.ForInt64())
	c.CreateColumn("u", column.ForUint32())
	c.CreateColumn("f", column.ForFloat64())
	c.CreateColumn("s", column.ForString())
	c.CreateColumn("e", column.ForEnum())
	c.CreateColumn("b", column.ForBool())
	c.CreateColumn("m", column.ForInt64())
	// a fixed-size record stored through a user merge function (decode, replace, encode)
	c.CreateColumn("rc", column.ForRecord(func() *Rec { return new(Rec) }, column.WithMerge(func(v, d *Rec) *Rec {
		v.A, v.B = d.A, append(v.B[:0], d.B...)
		return v
	})))
	return c
}

var enumTags = func() []string {
	out := make([]string, 4096) // new strings keep being interned for most of a round
	for i := range out {
		out[i] = "tag-" + strconv.Itoa(i)
	}
	return out
}()

func writeTag(r column.Row, t int64) {
	r.SetInt64("a", t)
	r.SetUint32("u", uint32(t))
	r.SetFloat64("f", float64(t&(1<<52-1)))
	r.SetString("s", strconv.FormatInt(t, 36))
	r.SetEnum("e", enumTags[t&4095])
	r.SetBool("b", t&1 == 1)
	r.MergeRecord("rc", tagRec(t))
}

const poison = int64(1) << 61

// tagRec: the tag as a fixed-size record (12 bytes encoded)
func tagRec(t int64) *Rec {
	b := make([]byte, 8)
	binary.LittleEndian.PutUint64(b, uint64(t))
	return &Rec{A: uint32(t), B: b}
}

// tailMerge: "=text" replaces the value by text - the result is a sub-slice of the delta
func tailMerge(v, d string) string {
	if len(d) > 0 && d[0] == '=' {
		return d[1:]
	}
	return v + d
}

// judgeTag decides whether the six redundant columns read inside one callback are consistent.
func judgeTag(idx uint32, a int64, okA bool, u uint32, okU bool, f float64, okF bool, s string, okS bool, e string, okE bool, b bool) (int64, string) {
	if !okA {
		return 0, "" // row not written yet / being reused
	}
	if !okU || !okF || !okS || !okE {
		return a, fmt.Sprintf("row %d: a=%d present but u/f/s/e presence = %v/%v/%v/%v", idx, a, okU, okF, okS, okE)
	}
	if u != uint32(a) || f != float64(a&(1<<52-1)) || s != strconv.FormatInt(a, 36) || e != enumTags[a&4095] || b != (a&1 == 1) {
		return a, fmt.Sprintf("row %d mixes two committed states: a=%d u=%d f=%v s=%q(%s) e=%q b=%v", idx, a, u, f, s, strconv.FormatInt(a, 36), e, b)
	}
	if a&poison != 0 {
		return a, fmt.Sprintf("row %d shows tag %d which only a rolled-back transaction wrote", idx, a)
	}
	return a, ""
}

// readTag reads the six redundant columns of the row a point read is positioned on.
func readTag(r column.Row) (int64, string) {
	a, okA := r.Int64("a")
	u, okU := r.Uint32("u")
	f, okF := r.Float64("f")
	s, okS := r.String("s")
	e, okE := r.Enum("e")
	b := r.Bool("b")
	return judgeTag(r.Index(), a, okA, u, okU, f, okF, s, okS, e, okE, b)
}

// readTagTxn does the same through the Txn accessors, for use inside a Range callback (the
// cursor is positioned by Range and the block's read latch is already held).
func readTagTxn(txn *column.Txn) (int64, string) {
	a, okA := txn.Int64("a").Get()
	u, okU := txn.Uint32("u").Get()
	f, okF := txn.Float64("f").Get()
	s, okS := txn.String("s").Get()
	e, okE := txn.Enum("e").Get()
	b := txn.Bool("b").Get()
	return judgeTag(txn.Index(), a, okA, u, okU, f, okF, s, okS, e, okE, b)
}

// ---------------------------------------------------------------------------------------------
// C10: writers stamp rows with one tag in six columns; readers verify inside callbacks

func tornRound(w *W, idx int) {
	caseID := fmt.Sprintf("E3:torn:round%d", idx)
	w.Begin(idx, caseID)
	rng := rngFor(w.Seed, 10, idx)
	c := stressCollection(1000, false)
	defer c.Close()
	// a seventh redundant column, stored through a user merge function whose result is a part of
	// the delta it was handed ("=text" replaces the value by text)
	c.CreateColumn("t", column.ForString(column.WithMerge(tailMerge)))
	// three populated blocks
	const total = 40000
	c.Query(func(txn *column.Txn) error {
		for i := 0; i < total; i++ {
			txn.Insert(func(r column.Row) error { r.SetInt64("m", 0); return nil })
		}
		return nil
	})
	var targets []uint32
	for i := 0; i < 22; i++ {
		targets = append(targets, uint32(rng.Intn(16383)), uint32(16385+rng.Intn(16382)), uint32(32769+rng.Intn(total-32769)))
	}
	// the last row of a block and the first row of the next: written together, in ascending order, by some transactions
	pairs := [][2]uint32{{16383, 16384}, {32767, 32768}}
	for _, p := range pairs {
		targets = append(targets, p[0], p[1])
	}
	c.Query(func(txn *column.Txn) error {
		for _, t := range targets {
			txn.QueryAt(t, func(r column.Row) error {
				writeTag(r, 0)
				r.MergeString("t", "=0")
				r.MergeRecord("rc", tagRec(0))
				return nil
			})
		}
		return nil
	})
	c.CreateIndex("odd", "a", func(r column.Reader) bool { return r.Int()&1 == 1 })
	hook := &stressHook{delayPct: 30, seed: w.Seed + int64(idx)}
	hook.install(c)
	defer hook.remove()

	const writers, readers = 8, 8
	txnsPerWriter := 2500
	if w.Thorough() {
		txnsPerWriter = 6000
	}
	var writersLeft int32 = writers
	var callbacks, overlapped, torn int64
	var firstTorn atomic.Value
	report := func(msg string) {
		if atomic.AddInt64(&torn, 1) == 1 {
			firstTorn.Store(msg)
		}
	}
	check := func(r column.Row, how string) {
		atomic.AddInt64(&callbacks, 1)
		if hook.overlapping(r.Index() >> 14) {
			atomic.AddInt64(&overlapped, 1)
		}
		a, bad := readTag(r)
		if t, ok := r.String("t"); bad == "" && (!ok || t != strconv.FormatInt(a, 36)) {
			bad = fmt.Sprintf("row %d: a=%d (%s) but the merged string column t reads %q (present=%v), a value no transaction committed", r.Index(), a, strconv.FormatInt(a, 36), t, ok)
		}
		if rv, ok := r.Record("rc"); bad == "" {
			if rec, isRec := rv.(*Rec); !ok || !isRec || rec.A != uint32(a) || len(rec.B) != 8 || binary.LittleEndian.Uint64(rec.B) != uint64(a) {
				bad = fmt.Sprintf("row %d: a=%d but the merged record column rc reads %+v (present=%v), a value no transaction committed to this row", r.Index(), a, rv, ok)
			}
		}
		if bad != "" {
			report(how + ": " + bad)
		}
	}
	checkTxn := func(txn *column.Txn, how string) {
		atomic.AddInt64(&callbacks, 1)
		if hook.overlapping(txn.Index() >> 14) {
			atomic.AddInt64(&overlapped, 1)
		}
		a, bad := readTagTxn(txn)
		if t, ok := txn.String("t").Get(); bad == "" && (!ok || t != strconv.FormatInt(a, 36)) {
			bad = fmt.Sprintf("row %d: a=%d (%s) but the merged string column t reads %q (present=%v), a value no transaction committed", txn.Index(), a, strconv.FormatInt(a, 36), t, ok)
		}
		if bad != "" {
			report(how + ": " + bad)
		}
	}
	var fns []func()
	for wi := 0; wi < writers; wi++ {
		wi := wi
		fns = append(fns, func() {
			defer atomic.AddInt32(&writersLeft, -1)
			r := rngFor(w.Seed, 11, idx, wi)
			for n := 1; n <= txnsPerWriter; n++ {
				tag := int64(wi+1)<<40 | int64(n)
				rollback := r.Intn(10) == 0
				if rollback {
					tag |= poison
				}
				k := 1 + r.Intn(3)
				first := r.Intn(len(targets))
				if r.Intn(6) == 0 {
					// two adjacent rows on either side of a block boundary, ascending, in one transaction (two block commits)
					p := pairs[r.Intn(len(pairs))]
					c.Query(func(txn *column.Txn) error {
						for _, t := range p {
							txn.QueryAt(t, func(row column.Row) error {
								writeTag(row, tag)
								row.MergeString("t", "="+strconv.FormatInt(tag, 36))
								return nil
							})
						}
						if rollback {
							return errAbort
						}
						return nil
					})
					continue
				}
				c.Query(func(txn *column.Txn) error {
					for j := 0; j < k; j++ {
						// distinct rows: one merge per cell and transaction (DESIGN.md 3.3)
						txn.QueryAt(targets[(first+j*7)%len(targets)], func(row column.Row) error {
							writeTag(row, tag)
							row.MergeString("t", "="+strconv.FormatInt(tag, 36))
							return nil
						})
					}
					if rollback {
						return errAbort
					}
					return nil
				})
			}
		})
	}
	for ri := 0; ri < readers; ri++ {
		ri := ri
		fns = append(fns, func() {
			r := rngFor(w.Seed, 12, idx, ri)
			for atomic.LoadInt32(&writersLeft) > 0 {
				if ri == readers-1 {
					// ONE reader nests point reads on rows of other blocks inside its iteration callbacks. (Two such
					// readers in opposite directions can deadlock behind pending writers - read latches are not
					// re-entrant across goroutines' wait chains - which is why nested latching is outside the model,
					// DESIGN.md 3.3; a single one cannot: nobody else waits while holding a latch.)
					c.Query(func(txn *column.Txn) error {
						return txn.With("odd").Range(func(i uint32) {
							other := targets[r.Intn(len(targets))]
							if other>>14 != i>>14 {
								txn.QueryAt(other, func(row column.Row) error {
									check(row, "QueryAt nested in a Range callback of another block")
									return nil
								})
							}
						})
					})
					continue
				}
				switch ri % 3 {
				case 0:
					for j := 0; j < 50; j++ {
						c.QueryAt(targets[r.Intn(len(targets))], func(row column.Row) error { check(row, "QueryAt"); return nil })
					}
				case 1:
					c.Query(func(txn *column.Txn) error {
						return txn.With("a").Range(func(i uint32) { checkTxn(txn, "Range over With(a)") })
					})
				default:
					c.Query(func(txn *column.Txn) error {
						return txn.With("odd").Range(func(i uint32) { checkTxn(txn, "Range over With(index odd)") })
					})
				}
			}
		})
	}
	parallel(fns...)
	w.Stat("reader_callbacks", callbacks)
	w.Stat("reader_callbacks_overlapping_a_commit", overlapped)
	w.Stat("writer_transactions", int64(writers*txnsPerWriter))
	w.Stat("commits_counted_at_hook", atomic.LoadInt64(&hook.commits))
	w.Eval(hashOf("torn", idx, callbacks/1000), callbacks > 1000)
	if torn > 0 {
		w.Violate(idx, caseID, fmt.Sprintf("[torn] %d of %d reader callbacks saw an inconsistent row; first: %s", torn, callbacks, firstTorn.Load()), "", map[string]any{"idx": idx, "race": true})
	}
	if idx == 0 {
		w.Sample(map[string]any{"round": idx, "writers": writers, "readers": readers, "txns_per_writer": txnsPerWriter, "target_rows": len(targets), "blocks": 3,
			"reader_callbacks": callbacks, "overlapping_a_commit": overlapped})
	}
}

// ---------------------------------------------------------------------------------------------
// C18 mixes. Each returns a short description of what it observed.

type mixFn func(w *W, idx, rep int) map[string]int64

var raceMixes = []struct {
	name string
	fn   mixFn
}{
	{"grow-vs-read", mixGrow},
	{"reuse", mixReuse},
	{"snapshot-restore", mixSnapshot},
	{"schema-beside-writers", mixSchema},
	{"keys", mixKeys},
	{"enum-intern", mixEnum},
	{"vacuum-beside-writers", mixVacuum},
	{"sorted-iteration-beside-writers", mixSorted},
}

func raceRound(w *W, idx int) {
	mix := raceMixes[idx%len(raceMixes)]
	rep := idx / len(raceMixes)
	caseID := fmt.Sprintf("E3:race:%s:rep%d", mix.name, rep)
	w.Begin(idx, caseID)
	start := time.Now()
	obs := mix.fn(w, idx, rep)
	for k, v := range obs {
		w.Stat(mix.name+"."+k, v)
	}
	w.Stat("rounds_completed", 1)
	w.Eval(hashOf("race", mix.name, rep), true)
	w.StatMax("max_round_ms", time.Since(start).Milliseconds())
	if rep == 0 {
		w.Sample(map[string]any{"mix": mix.name, "observed": obs})
	}
}

func scale(w *W, quick, thorough int) int {
	if w.Thorough() {
		return thorough
	}
	return quick
}

// writers grow the collection across blocks while readers point-read and iterate
func mixGrow(w *W, idx, rep int) map[string]int64 {
	c := stressCollection(64, false)
	defer c.Close()
	hook := &stressHook{delayPct: 10, seed: w.Seed + int64(idx)}
	hook.install(c)
	defer hook.remove()
	var inserted, reads int64
	var left int32 = 4
	per := scale(w, 9000, 14000) // 4 writers x per rows -> beyond two blocks
	var fns []func()
	for wi := 0; wi < 4; wi++ {
		wi := wi
		fns = append(fns, func() {
			defer atomic.AddInt32(&left, -1)
			for n := 0; n < per; n += 50 {
				c.Query(func(txn *column.Txn) error {
					for j := 0; j < 50; j++ {
						txn.Insert(func(r column.Row) error { writeTag(r, int64(wi+1)<<40|int64(n+j)); return nil })
					}
					return nil
				})
				atomic.AddInt64(&inserted, 50)
			}
		})
	}
	for ri := 0; ri < 6; ri++ {
		ri := ri
		fns = append(fns, func() {
			r := rngFor(w.Seed, 20, idx, ri)
			for atomic.LoadInt32(&left) > 0 {
				n := uint32(atomic.LoadInt64(&inserted)) + 1
				switch ri % 3 {
				case 0:
					for j := 0; j < 200; j++ {
						c.QueryAt(uint32(r.Intn(int(n))), func(row column.Row) error {
							row.Int64("a")
							row.String("s")
							row.Enum("e")
							row.Bool("b")
							atomic.AddInt64(&reads, 1)
							return nil
						})
					}
				case 1:
					c.Query(func(txn *column.Txn) error {
						a := txn.Int64("a")
						txn.WithInt("a", func(v int64) bool { return v&1 == 0 }).Range(func(i uint32) { a.Get(); atomic.AddInt64(&reads, 1) })
						return nil
					})
				default:
					c.Query(func(txn *column.Txn) error {
						txn.Int64("a").Sum()
						txn.WithString("s", func(v string) bool { return len(v) > 1 }).Count()
						atomic.AddInt64(&reads, 1)
						return nil
					})
					// every selection helper, on several names at once, while the extent moves
					c.Query(func(txn *column.Txn) error {
						txn.With("a").WithUnion("b", "e", "f").Without("m").Union("s", "u").Count()
						atomic.AddInt64(&reads, 1)
						return nil
					})
				}
			}
		})
	}
	parallel(fns...)
	return map[string]int64{"rows_inserted": inserted, "reads": reads, "blocks_grown": int64(c.Count() >> 14), "commits": atomic.LoadInt64(&hook.commits)}
}

// offset reuse: inserts and deletes beside readers
func mixReuse(w *W, idx, rep int) map[string]int64 {
	c := stressCollection(1000, false)
	defer c.Close()
	hook := &stressHook{delayPct: 10, seed: w.Seed + int64(idx)}
	hook.install(c)
	defer hook.remove()
	c.Query(func(txn *column.Txn) error {
		for i := 0; i < 20000; i++ {
			txn.Insert(func(r column.Row) error { writeTag(r, int64(i)); return nil })
		}
		return nil
	})
	var left int32 = 6
	var ins, del, reads int64
	n := scale(w, 1500, 4000)
	var fns []func()
	for wi := 0; wi < 6; wi++ {
		wi := wi
		fns = append(fns, func() {
			defer atomic.AddInt32(&left, -1)
			r := rngFor(w.Seed, 21, idx, wi)
			var mine []uint32
			for i := 0; i < n; i++ {
				c.Query(func(txn *column.Txn) error {
					if len(mine) > 20 && r.Intn(2) == 0 {
						for j := 0; j < 5; j++ {
							txn.DeleteAt(mine[len(mine)-1])
							mine = mine[:len(mine)-1]
							atomic.AddInt64(&del, 1)
						}
						return nil
					}
					for j := 0; j < 5; j++ {
						off, _ := txn.Insert(func(row column.Row) error { writeTag(row, int64(wi+1)<<40|int64(i)); return nil })
						mine = append(mine, off)
						atomic.AddInt64(&ins, 1)
					}
					if r.Intn(8) == 0 {
						mine = mine[:len(mine)-5]
						return errAbort
					}
					return nil
				})
			}
		})
	}
	for ri := 0; ri < 4; ri++ {
		ri := ri
		fns = append(fns, func() {
			for atomic.LoadInt32(&left) > 0 {
				c.Query(func(txn *column.Txn) error {
					if ri%2 == 0 {
						txn.With("b").Range(func(i uint32) { atomic.AddInt64(&reads, 1) })
					} else {
						txn.Count()
						txn.Float64("f").Max()
						atomic.AddInt64(&reads, 1)
					}
					return nil
				})
				c.Count()
			}
		})
	}
	parallel(fns...)
	return map[string]int64{"inserts": ins, "deletes": del, "reads": reads, "commits": atomic.LoadInt64(&hook.commits)}
}

// snapshots and restores (into other collections) beside multi-block writers
func mixSnapshot(w *W, idx, rep int) map[string]int64 {
	c := stressCollection(1000, false)
	defer c.Close()
	hook := &stressHook{delayPct: 10, seed: w.Seed + int64(idx)}
	hook.install(c)
	defer hook.remove()
	c.Query(func(txn *column.Txn) error {
		for i := 0; i < 34000; i++ {
			txn.Insert(func(r column.Row) error { r.SetInt64("m", 0); return nil })
		}
		return nil
	})
	var left int32 = 4
	var snaps, restores, overlapped int64
	n := scale(w, 400, 1200)
	var fns []func()
	for wi := 0; wi < 4; wi++ {
		wi := wi
		fns = append(fns, func() {
			defer atomic.AddInt32(&left, -1)
			r := rngFor(w.Seed, 22, idx, wi)
			for i := 0; i < n; i++ {
				c.Query(func(txn *column.Txn) error {
					for _, base := range []int{0, 16384, 32768} {
						txn.QueryAt(uint32(base+r.Intn(1200)), func(row column.Row) error {
							row.MergeInt64("m", 1)
							writeTag(row, int64(wi+1)<<40|int64(i))
							return nil
						})
					}
					if i%16 == 0 {
						txn.Insert(func(row column.Row) error { row.SetInt64("m", 7); return nil })
					}
					return nil
				})
				if atomic.LoadInt64(&hook.snapshots) > 0 {
					atomic.AddInt64(&overlapped, 1)
				}
			}
		})
	}
	var mu sync.Mutex
	var last []byte
	fns = append(fns, func() {
		for i := 0; i < 40 && atomic.LoadInt32(&left) > 0; i++ {
			var buf bytes.Buffer
			if err := c.Snapshot(&buf); err == nil {
				mu.Lock()
				last = buf.Bytes()
				mu.Unlock()
				atomic.AddInt64(&snaps, 1)
			}
		}
	})
	fns = append(fns, func() {
		for i := 0; i < 12 && atomic.LoadInt32(&left) > 0; i++ {
			mu.Lock()
			data := last
			mu.Unlock()
			if data == nil {
				time.Sleep(time.Millisecond)
				continue
			}
			other := stressCollection(64, false)
			if other.Restore(bytes.NewReader(data)) == nil {
				atomic.AddInt64(&restores, 1)
			}
			other.Close()
		}
	})
	parallel(fns...)
	return map[string]int64{"snapshots": snaps, "restores_into_other_collections": restores, "commits_while_a_snapshot_was_running": overlapped, "commits": atomic.LoadInt64(&hook.commits)}
}

// index / sorted index / trigger creation and removal beside writers and readers
func mixSchema(w *W, idx, rep int) map[string]int64 {
	c := stressCollection(64, false)
	defer c.Close()
	hook := &stressHook{delayPct: 10, seed: w.Seed + int64(idx)}
	hook.install(c)
	defer hook.remove()
	c.Query(func(txn *column.Txn) error {
		for i := 0; i < 50000; i++ {
			txn.Insert(func(r column.Row) error {
				writeTag(r, int64(i))
				if i < 16384 {
					r.SetInt64("m", 1) // column m has values in block 0 only
				}
				return nil
			})
		}
		return nil
	})
	// sparse: every fifth row survives, so the row count (10 000) is far below the extent (four blocks)
	c.Query(func(txn *column.Txn) error {
		for i := uint32(0); i < 50000; i++ {
			if i%5 != 0 {
				txn.DeleteAt(i)
			}
		}
		return nil
	})
	var left int32 = 4
	var built, dropped, overlapped, reads int64
	n := scale(w, 500, 1500)
	var building int32
	var fns []func()
	for wi := 0; wi < 4; wi++ {
		wi := wi
		fns = append(fns, func() {
			defer atomic.AddInt32(&left, -1)
			r := rngFor(w.Seed, 23, idx, wi)
			for i := 0; i < n; i++ {
				c.Query(func(txn *column.Txn) error {
					for j := 0; j < 4; j++ {
						txn.QueryAt(uint32(r.Intn(10000))*5, func(row column.Row) error { writeTag(row, int64(wi+1)<<40|int64(i)); return nil })
					}
					if i%4 == 0 {
						txn.Insert(func(row column.Row) error { writeTag(row, int64(wi+1)<<40|int64(i)); return nil })
					}
					return nil
				})
				if atomic.LoadInt32(&building) > 0 {
					atomic.AddInt64(&overlapped, 1)
				}
			}
		})
	}
	fns = append(fns, func() {
		for i := 0; atomic.LoadInt32(&left) > 0 && i < 60; i++ {
			atomic.StoreInt32(&building, 1)
			name := fmt.Sprintf("ix%d", i)
			c.CreateIndex(name, "a", func(r column.Reader) bool { return r.Int()&1 == 0 })
			sname := fmt.Sprintf("sx%d", i)
			c.CreateSortIndex(sname, "s")
			tname := fmt.Sprintf("tg%d", i)
			c.CreateTrigger(tname, "u", func(r column.Reader) {})
			mname := fmt.Sprintf("ixm%d", i)
			c.CreateIndex(mname, "m", func(r column.Reader) bool { return r.Int() > 0 }) // no value of m in block 1
			c.DropIndex(mname)
			atomic.StoreInt32(&building, 0)
			atomic.AddInt64(&built, 3)
			c.Query(func(txn *column.Txn) error {
				txn.With(name).Count()
				txn.Ascend(sname, func(uint32) {})
				return nil
			})
			c.DropIndex(name)
			c.DropIndex(sname)
			c.DropTrigger(tname)
			atomic.AddInt64(&dropped, 3)
		}
	})
	for ri := 0; ri < 3; ri++ {
		fns = append(fns, func() {
			for atomic.LoadInt32(&left) > 0 {
				c.Query(func(txn *column.Txn) error {
					txn.With("b").Range(func(i uint32) { atomic.AddInt64(&reads, 1) })
					return nil
				})
			}
		})
	}
	parallel(fns...)
	return map[string]int64{"computed_columns_built": built, "dropped": dropped, "commits_while_building": overlapped, "reads": reads, "commits": atomic.LoadInt64(&hook.commits)}
}

// key table under parallel upserts of disjoint keys
func mixKeys(w *W, idx, rep int) map[string]int64 {
	c := stressCollection(1000, true)
	defer c.Close()
	// block 0 is full of keyed rows, so that the writers' own rows live in block 1: commits that touch
	// the key column then run in parallel under different block latches
	c.Query(func(txn *column.Txn) error {
		for i := 0; i < 16384+100; i++ {
			txn.InsertKey(fmt.Sprintf("pre-%d", i), func(row column.Row) error { row.SetInt64("m", 0); return nil })
		}
		return nil
	})
	hook := &stressHook{delayPct: 10, seed: w.Seed + int64(idx)}
	hook.install(c)
	defer hook.remove()
	var ops, rekeys int64
	// two transactions that both queue the delete of the same keyed row before either commits
	{
		var both, goOn sync.WaitGroup
		both.Add(2)
		goOn.Add(1)
		var pair []func()
		for g := 0; g < 2; g++ {
			pair = append(pair, func() {
				c.Query(func(txn *column.Txn) error {
					txn.DeleteKey("pre-16400")
					both.Done()
					goOn.Wait()
					return nil
				})
			})
		}
		go func() { both.Wait(); goOn.Done() }()
		parallel(pair...)
		c.UpsertKey("pre-16400", func(row column.Row) error { row.SetInt64("m", 7); return nil })
		ops += 3
	}
	n := scale(w, 1500, 5000)
	var fns []func()
	for wi := 0; wi < 8; wi++ {
		wi := wi
		fns = append(fns, func() {
			r := rngFor(w.Seed, 24, idx, wi)
			ns := wi
			if wi == 3 {
				ns = 1 // writers 1 and 3 work on the same keys: deletes and upserts of one key from two goroutines
			}
			for i := 0; i < n; i++ {
				if wi%2 == 0 {
					// re-key rows of block 0 that this writer alone works with: pre-N <-> alt-N
					j := wi*100 + r.Intn(30)
					from, to := fmt.Sprintf("pre-%d", j), fmt.Sprintf("alt-%d", j)
					if c.QueryKey(from, func(row column.Row) error { row.SetKey(to); return nil }) != nil {
						c.QueryKey(to, func(row column.Row) error { row.SetKey(from); return nil })
					}
					atomic.AddInt64(&rekeys, 1)
					atomic.AddInt64(&ops, 1)
					continue
				}
				key := fmt.Sprintf("w%d-%d", ns, r.Intn(40))
				switch r.Intn(4) {
				case 0:
					c.DeleteKey(key)
				case 1:
					c.QueryKey(key, func(row column.Row) error { row.MergeInt64("m", 1); return nil })
				default:
					c.UpsertKey(key, func(row column.Row) error { writeTag(row, int64(wi+1)<<40|int64(i)); return nil })
				}
				atomic.AddInt64(&ops, 1)
			}
		})
	}
	parallel(fns...)
	return map[string]int64{"key_operations": ops, "re_keyed_rows_beside_key_writes_in_another_block": rekeys, "commits": atomic.LoadInt64(&hook.commits)}
}

func mixEnum(w *W, idx, rep int) map[string]int64 {
	c := stressCollection(1000, false)
	defer c.Close()
	hook := &stressHook{delayPct: 10, seed: w.Seed + int64(idx)}
	hook.install(c)
	defer hook.remove()
	c.Query(func(txn *column.Txn) error {
		for i := 0; i < 34000; i++ {
			txn.Insert(func(r column.Row) error { r.SetEnum("e", "init"); return nil })
		}
		return nil
	})
	var left int32 = 4
	var writes, reads int64
	n := scale(w, 1500, 5000)
	var fns []func()
	for wi := 0; wi < 4; wi++ {
		wi := wi
		fns = append(fns, func() {
			defer atomic.AddInt32(&left, -1)
			r := rngFor(w.Seed, 25, idx, wi)
			for i := 0; i < n; i++ {
				c.Query(func(txn *column.Txn) error {
					for _, base := range []int{0, 16384, 32768} {
						txn.QueryAt(uint32(base+r.Intn(1000)), func(row column.Row) error {
							row.SetEnum("e", fmt.Sprintf("new-%d-%d-%d", rep, wi, i)) // always a string never interned before
							return nil
						})
					}
					return nil
				})
				atomic.AddInt64(&writes, 3)
			}
		})
	}
	for ri := 0; ri < 4; ri++ {
		ri := ri
		fns = append(fns, func() {
			r := rngFor(w.Seed, 26, idx, ri)
			for atomic.LoadInt32(&left) > 0 {
				if ri%2 == 0 {
					for j := 0; j < 100; j++ {
						c.QueryAt(uint32(r.Intn(34000)), func(row column.Row) error { row.Enum("e"); atomic.AddInt64(&reads, 1); return nil })
					}
				} else {
					c.Query(func(txn *column.Txn) error {
						txn.WithString("e", func(v string) bool { return len(v) > 4 }).Count()
						atomic.AddInt64(&reads, 1)
						return nil
					})
				}
			}
		})
	}
	parallel(fns...)
	return map[string]int64{"enum_stores_of_new_strings": writes, "reads": reads, "commits": atomic.LoadInt64(&hook.commits)}
}

// sorted-index iteration (plain and filtered) beside writers that store to the sorted column,
// delete and re-insert; no growth into new blocks and no new enum strings (the recorded races)
func mixSorted(w *W, idx, rep int) map[string]int64 {
	c := stressCollection(16384, false)
	defer c.Close()
	c.Query(func(txn *column.Txn) error {
		for i := 0; i < 800; i++ {
			txn.Insert(func(r column.Row) error { writeTag(r, int64(i)); return nil })
		}
		return nil
	})
	c.CreateSortIndex("by_s", "s")
	c.CreateIndex("odd", "a", func(r column.Reader) bool { return r.Int()&1 == 1 })
	hook := &stressHook{delayPct: 10, seed: w.Seed + int64(idx)}
	hook.install(c)
	defer hook.remove()
	var left int32 = 4
	var scans, visited int64
	n := scale(w, 150, 600)
	var fns []func()
	for wi := 0; wi < 4; wi++ {
		wi := wi
		fns = append(fns, func() {
			defer atomic.AddInt32(&left, -1)
			r := rngFor(w.Seed, 28, idx, wi)
			for i := 0; i < n; i++ {
				c.Query(func(txn *column.Txn) error {
					for j := 0; j < 3; j++ {
						txn.QueryAt(uint32(r.Intn(800)), func(row column.Row) error { writeTag(row, int64(wi+1)<<40|int64(i)); return nil })
					}
					return nil
				})
			}
		})
	}
	for ri := 0; ri < 4; ri++ {
		ri := ri
		fns = append(fns, func() {
			for atomic.LoadInt32(&left) > 0 {
				c.Query(func(txn *column.Txn) error {
					if ri%2 == 1 {
						txn.With("odd")
					}
					txn.Ascend("by_s", func(uint32) { atomic.AddInt64(&visited, 1) })
					return nil
				})
				atomic.AddInt64(&scans, 1)
			}
		})
	}
	parallel(fns...)
	return map[string]int64{"ascend_scans": scans, "rows_visited": visited, "commits": atomic.LoadInt64(&hook.commits)}
}

// the cleanup goroutine (1 ms interval) deleting expired rows beside writers, extenders and readers
func mixVacuum(w *W, idx, rep int) map[string]int64 {
	c := column.NewCollection(column.Options{Capacity: 64, Vacuum: time.Millisecond})
	defer c.Close()
	c.CreateColumn("a", column.ForInt64())
	c.CreateColumn("s", column.ForString())
	hook := &stressHook{delayPct: 10, seed: w.Seed + int64(idx)}
	hook.install(c)
	defer hook.remove()
	var left int32 = 4
	var ins, reads int64
	n := scale(w, 1500, 5000)
	var fns []func()
	for wi := 0; wi < 4; wi++ {
		wi := wi
		fns = append(fns, func() {
			defer atomic.AddInt32(&left, -1)
			r := rngFor(w.Seed, 27, idx, wi)
			for i := 0; i < n; i++ {
				c.Query(func(txn *column.Txn) error {
					for j := 0; j < 4; j++ {
						txn.Insert(func(row column.Row) error {
							row.SetInt64("a", int64(i))
							row.SetString("s", "v")
							if r.Intn(3) != 0 {
								row.SetTTL(time.Duration(1+r.Intn(5)) * time.Millisecond)
							}
							return nil
						})
					}
					return nil
				})
				atomic.AddInt64(&ins, 4)
				if i%10 == 0 {
					c.Query(func(txn *column.Txn) error {
						ttl := txn.TTL()
						return txn.With("expire").Range(func(uint32) { ttl.Extend(time.Millisecond) })
					})
				}
			}
		})
	}
	for ri := 0; ri < 3; ri++ {
		fns = append(fns, func() {
			for atomic.LoadInt32(&left) > 0 {
				c.Query(func(txn *column.Txn) error {
					a := txn.Int64("a")
					txn.Range(func(uint32) { a.Get(); atomic.AddInt64(&reads, 1) })
					return nil
				})
				c.Count()
			}
		})
	}
	parallel(fns...)
	return map[string]int64{"inserts": ins, "reads": reads, "rows_left": int64(c.Count()), "commits": atomic.LoadInt64(&hook.commits)}
}

func init() {
	register(&Property{ID: "C10", Level: "exploration",
		Rule:   "one case = one round: 8 writers x 2 500 (6 000) transactions stamp 1-3 of 66 target rows (three blocks) with one tag stored redundantly in seven columns of different kinds, one of them through a user merge function that returns part of its delta (10% roll back with a poisoned tag); 8 readers (QueryAt, Range over With(column), Range over With(index)) decode the six columns inside the callback until the writers are done; micro-delays are injected at the commit hooks (also inside the latch, between columns); race-detector build and plain build; third phase (plain build): six writers update rows they own exclusively and read each back right after their own commit (six columns + a bitmap index) while another goroutine grows the collection from 1 to 14 blocks - every growth re-allocates column storage, an update applied meanwhile must not be lost; non-trivial = more than 1 000 reader callbacks; distinct = (round, callbacks/1000)",
		Assume: []string{"schedules are whatever 16 cores and the injected delays produce; evidence reports callbacks and how many of them overlapped a commit on the same block (counted at the hooks)"},
		Plan: func(tier string) []Plan {
			n := 3
			if tier == "thorough" {
				n = 60
			}
			// the same rounds under the race-detector build (instrumented timing, checkptr) and under the plain build (throughput)
			return []Plan{{Cases: n, Workers: 2, Race: true, MaxProcs: 8, Timeout: 40 * time.Minute, HangIsViol: true},
				{Cases: n, Workers: 2, MaxProcs: 8, Timeout: 40 * time.Minute, HangIsViol: true},
				{Cases: n, Workers: 3, MaxProcs: 8, Timeout: 40 * time.Minute, HangIsViol: true}}
		},
		Run: func(w *W, phase, idx int) {
			if phase == 2 {
				withWatchdog(w, idx, fmt.Sprintf("E3:grow-beside-writers:round%d", idx), 5*time.Minute, func() { growRound(w, idx) })
				return
			}
			withWatchdog(w, idx, fmt.Sprintf("E3:torn:round%d", idx+100*phase), 5*time.Minute, func() { tornRound(w, idx+100*phase) })
		},
		MinEvents: map[string]int64{"reader_callbacks": 10000, "reader_callbacks_overlapping_a_commit": 1000},
	})
	register(&Property{ID: "C18", Level: "exploration",
		Rule:   "one case = one round of one of eight workload mixes aimed at shared mutable state (writers growing the collection across blocks beside readers; offset reuse; snapshots and restores into other collections beside multi-block writers; index/sorted-index/trigger creation and removal beside writers and readers; key table under parallel upserts; enum interning of new strings beside readers; the cleanup goroutine at a 1 ms interval beside inserts with short TTLs, extensions and readers; sorted-index iteration beside writers of the sorted column), each a fixed number of transactions per goroutine on 8-16 goroutines, race-detector build with micro-delays at the hooks, each mix repeated; a race report = violation unless its stack pair matches a recorded finding exactly; a round that never completes = violation after goroutine-dump classification; distinct = (mix, repetition)",
		Assume: []string{"the race detector only reports races that the executed schedules make observable", "deadlock = watchdog (40 min per worker) expired and every workload goroutine blocked in a sync/channel wait; anything else that exceeds the watchdog is inconclusive"},
		Plan: func(tier string) []Plan {
			n := len(raceMixes) * 2
			if tier == "thorough" {
				n = len(raceMixes) * 20
			}
			return []Plan{{Cases: n, Workers: 2, Race: true, MaxProcs: 8, Timeout: 40 * time.Minute, HangIsViol: true}}
		},
		Run: func(w *W, phase, idx int) {
			mix := raceMixes[idx%len(raceMixes)]
			withWatchdog(w, idx, fmt.Sprintf("E3:race:%s:rep%d", mix.name, idx/len(raceMixes)), 5*time.Minute, func() { raceRound(w, idx) })
		},
		Post:      collectRaces,
		MinEvents: map[string]int64{"rounds_completed": 6, "grow-vs-read.reads": 1000, "schema-beside-writers.commits_while_building": 10, "snapshot-restore.commits_while_a_snapshot_was_running": 3},
	})
}
