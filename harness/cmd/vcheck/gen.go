package main

// gen.go — seeded generators: values, transactions, filter chains.

import (
	"fmt"
	"math"
	"math/rand"
	"sort"
)

type Gen struct {
	rng      *rand.Rand
	pool     string // edge | agg | small
	keys     []string
	enumAlph []string
	sortAlph []string
	lastStr  string
	enumHot  []string // strings whose hashes collide / chain: favoured by this generator
}

func newGen(seed int64, pool string) *Gen {
	g := &Gen{rng: rand.New(rand.NewSource(seed)), pool: pool}
	g.keys = []string{"a", "b", "c", "d", "e", "f", "g", "h", "", "key-with-long-name-000000000000000000000000000001"}
	g.enumAlph = []string{"", "red", "green", "blue", "x", "\xff\xfe", "a-much-longer-enum-value-than-the-others"}
	for _, p := range findEnumCollisions() {
		g.enumAlph = append(g.enumAlph, p[0], p[1])
	}
	for _, c := range enumChains() {
		g.enumAlph = append(g.enumAlph, c...)
	}
	// every second generator concentrates on one collision group, so that whole probe chains
	// (not just one colliding pair) are interned in all orders
	if groups := append(append([][]string{}, enumChains()...), pairsAsGroups(findEnumCollisions())...); len(groups) > 0 && g.rng.Intn(2) == 0 {
		g.enumHot = groups[g.rng.Intn(len(groups))]
	}
	g.sortAlph = []string{"", "a", "b", "c", "bb", "a\x00"}
	return g
}

func canonBits(k Kind, raw uint64) uint64 {
	switch k {
	case KInt16:
		return uint64(int64(int16(raw)))
	case KInt32:
		return uint64(int64(int32(raw)))
	case KUint16:
		return uint64(uint16(raw))
	case KUint32, KFloat32:
		return uint64(uint32(raw))
	}
	return raw
}

var edgeInts = []uint64{0, 1, 2, math.MaxUint64, 0x7f, 0x80, 0xff, 0x100, 0x7fff, 0x8000, 0xffff, 0x10000, 0x7fffffff, 0x80000000, 0xffffffff,
	0x100000000, 0x7fffffffffffffff, 0x8000000000000000, 0xfffffffffffffffe}

var edgeF64 = []uint64{0, 0x8000000000000000, 0x7ff0000000000000, 0xfff0000000000000, 0x7ff8000000000001, 0x7ff0000000000001, 0xfff8000000abcdef,
	1, 0x000fffffffffffff, 0x3ff0000000000000, 0xbff0000000000000, 0x7fefffffffffffff, 0x0010000000000000}

var edgeF32 = []uint64{0, 0x80000000, 0x7f800000, 0xff800000, 0x7fc00001, 0x7f800001, 0xffc0beef, 1, 0x007fffff, 0x3f800000, 0xbf800000, 0x7f7fffff}

func (g *Gen) numBits(k Kind) uint64 {
	r := g.rng
	switch g.pool {
	case "agg":
		// small values for which every summation order is exact
		switch {
		case k == KFloat32:
			return uint64(math.Float32bits(float32(r.Intn(511)-255) / 4))
		case k == KFloat64:
			return math.Float64bits(float64(r.Intn(1<<21)-(1<<20)) / 4)
		case k == KInt16:
			return canonBits(k, uint64(int64(r.Intn(15)-7)))
		case k == KUint16:
			return uint64(r.Intn(15))
		case k.Signed():
			return canonBits(k, uint64(int64(r.Intn(1<<21)-(1<<20))))
		default:
			return uint64(r.Intn(1 << 20))
		}
	case "small":
		if k.Float() {
			if k == KFloat32 {
				return uint64(math.Float32bits(float32(r.Intn(41) - 20)))
			}
			return math.Float64bits(float64(r.Intn(41) - 20))
		}
		if k.Signed() {
			return canonBits(k, uint64(int64(r.Intn(41)-20)))
		}
		return uint64(r.Intn(41))
	}
	switch {
	case k == KFloat64:
		switch r.Intn(4) {
		case 0:
			return edgeF64[r.Intn(len(edgeF64))]
		case 1:
			return math.Float64bits(float64(r.Intn(2001)-1000) / 8)
		default:
			return r.Uint64()
		}
	case k == KFloat32:
		switch r.Intn(4) {
		case 0:
			return edgeF32[r.Intn(len(edgeF32))]
		case 1:
			return uint64(math.Float32bits(float32(r.Intn(2001)-1000) / 8))
		default:
			return uint64(r.Uint32())
		}
	}
	switch r.Intn(4) {
	case 0:
		return canonBits(k, edgeInts[r.Intn(len(edgeInts))])
	case 1:
		return canonBits(k, uint64(int64(r.Intn(201)-100)))
	default:
		return canonBits(k, r.Uint64())
	}
}

func (g *Gen) randBytes(n int) string {
	b := make([]byte, n)
	switch g.rng.Intn(3) {
	case 0:
		for i := range b {
			b[i] = byte('a' + g.rng.Intn(26))
		}
	default:
		g.rng.Read(b)
	}
	return string(b)
}

func (g *Gen) str() string {
	r := g.rng
	var s string
	switch r.Intn(14) {
	case 0:
		s = ""
	case 1:
		s = g.randBytes(1)
	case 2:
		s = g.randBytes(255)
	case 3:
		s = g.randBytes(256)
	case 4:
		if r.Intn(6) == 0 {
			s = g.randBytes(65535)
		} else {
			s = g.randBytes(1000 + r.Intn(3000))
		}
	case 5, 6:
		// shares a prefix with the previous value, same length (in-place path)
		b := []byte(g.lastStr)
		if len(b) > 0 {
			b[len(b)-1] ^= 0x5a
		}
		s = string(b)
	case 7:
		// shares a prefix, different length
		s = g.lastStr + g.randBytes(1+r.Intn(4))
		if len(s) > 60000 {
			s = s[:100]
		}
	case 8:
		s = "\xff\xfe\x00invalid-utf8\x80"
	default:
		s = g.randBytes(2 + r.Intn(12))
	}
	g.lastStr = s
	return s
}

func (g *Gen) rec() string {
	r := &Rec{A: uint32(g.rng.Uint32())}
	if g.rng.Intn(3) != 0 {
		r.B = []byte(g.randBytes(g.rng.Intn(20)))
	}
	if g.rng.Intn(5) == 0 {
		r.A = 0
	}
	return recToString(r)
}

// wide 64-bit values (C04's second int64 / uint64 column): neighbours that differ only below
// float64's 53-bit mantissa, and the limits of the types
var wideI = []int64{1 << 53, 1<<53 + 1, 1<<53 + 2, -(1 << 53) - 1, -(1 << 53), math.MaxInt64, math.MaxInt64 - 1, math.MinInt64, math.MinInt64 + 1, 1<<62 + 1, 1 << 62}
var wideU = []uint64{1 << 53, 1<<53 + 1, 1<<53 + 2, math.MaxUint64, math.MaxUint64 - 1, 1 << 63, 1<<63 + 1, 1<<63 - 1, 1<<62 + 1}

func wideCol(name string) bool { return name == "i641" || name == "u641" }

func (g *Gen) value(c ColSpec) Val {
	k := c.Kind
	if g.pool == "agg" && wideCol(c.Name) {
		if k == KInt64 {
			return Val{B: uint64(wideI[g.rng.Intn(len(wideI))])}
		}
		return Val{B: wideU[g.rng.Intn(len(wideU))]}
	}
	switch {
	case k.Numeric():
		if c.Name == "expire" {
			// far-future deadlines or "never"; cleanup must not touch them
			if g.rng.Intn(4) == 0 {
				return Val{B: 0}
			}
			return Val{B: uint64(int64(4102444800e9) + int64(g.rng.Intn(1e6)))} // year 2100
		}
		return Val{B: g.numBits(k)}
	case k == KBool:
		return Val{B: 1}
	case k.PlainString():
		if g.pool == "small" || g.pool == "agg" {
			return Val{S: g.sortAlph[g.rng.Intn(len(g.sortAlph))]}
		}
		s := g.str()
		if k == KStringCat && len(s) > 60000 {
			// boundary: no value beyond 65 535 bytes - a concatenating merge generated against a view of the cell
			// that another client has replaced meanwhile must not push a maximal string over the buffer limit
			s = s[:60000]
		}
		return Val{S: s}
	case k == KEnum:
		if len(g.enumHot) > 0 && g.rng.Intn(2) == 0 {
			return Val{S: g.enumHot[g.rng.Intn(len(g.enumHot))]}
		}
		return Val{S: g.enumAlph[g.rng.Intn(len(g.enumAlph))]}
	case k.IsRecord():
		return Val{S: g.rec()}
	case k == KKey:
		return Val{S: g.keys[g.rng.Intn(len(g.keys))]}
	}
	panic("value")
}

// mergeDelta produces a delta suitable for a merge on the column.
func (g *Gen) mergeDelta(c ColSpec, curLen int) Val {
	switch c.Kind {
	case KStringCat:
		n := g.rng.Intn(4)
		if curLen+n > 50000 {
			n = 0
		}
		return Val{S: g.randBytes(n)}
	case KRecordMerge:
		r := &Rec{A: uint32(g.rng.Intn(100))}
		if g.rng.Intn(2) == 0 && curLen < 50000 {
			r.B = []byte(g.randBytes(1 + g.rng.Intn(3)))
		}
		return Val{S: recToString(r)}
	case KString:
		if g.pool == "small" || g.pool == "agg" {
			return Val{S: g.sortAlph[g.rng.Intn(len(g.sortAlph))]}
		}
		return Val{S: g.randBytes(g.rng.Intn(12))}
	case KStringMin:
		pre := ""
		if g.rng.Intn(3) == 0 {
			pre = "=" // the merge function takes the tail of such a delta
		}
		if g.pool == "small" || g.pool == "agg" {
			return Val{S: pre + g.sortAlph[g.rng.Intn(len(g.sortAlph))]}
		}
		return Val{S: pre + g.randBytes(1+g.rng.Intn(10))} // longer or shorter than the current value
	}
	return g.value(c)
}

// ---------------------------------------------------------------------------------------------
// Transactions

type txnGenOpts struct {
	MaxOps       int
	PInsert      int // weights
	PUpdate      int
	PDelete      int
	PKeyOps      int
	PFailInsert  int // percent of transactions that contain a failing insert/update callback
	PAbort       int // percent of transactions whose body returns an error at the end
	MergePct     int
	MaxLive      int
	WriteCols    []ColSpec // columns the generator may write (nil = all of the model)
	InsertAllPct int       // percent of inserts that set every column (so that reuse exposes stale data)
	MultiBlock   bool
	SwallowPct   int // percent of aborting transactions in which one insert callback fails and the body ignores it
	DupDelPct    int // percent of delete operations that are repeated right away (the row / key still resolves inside the transaction)
}

func (g *Gen) pickCols(m *Model, o txnGenOpts, n int) []ColSpec {
	cols := o.WriteCols
	if cols == nil {
		for _, c := range m.Cols {
			if c.Kind != KKey {
				cols = append(cols, c)
			}
		}
	}
	if n >= len(cols) {
		return append([]ColSpec(nil), cols...)
	}
	perm := g.rng.Perm(len(cols))[:n]
	sort.Ints(perm)
	out := make([]ColSpec, n)
	for i, p := range perm {
		out[i] = cols[p]
	}
	return out
}

type cellKey struct {
	col string
	off int64 // negative: -(ref) for rows inserted in this transaction
}

// txnState tracks what the transaction under construction already did, to respect the
// model boundaries (DESIGN.md 3.3).
type txnState struct {
	written   map[int64]bool   // rows written
	deleted   map[int64]bool   // rows deleted
	varMerged map[cellKey]bool // cells that received a (possibly) length-changing merge
	keysMade  map[string]bool  // keys created / re-keyed to in this transaction
	keysGone  map[string]bool  // keys deleted in this transaction
	curLen    map[cellKey]int
	cur       map[cellKey]Val // simulated value of the cells written so far
	curHas    map[cellKey]bool
	opSerial  int             // serial number of the operation being generated
	varOp     map[cellKey]int // operation that issued the length-changing merge on a cell
}

func (g *Gen) genWrites(m *Model, o txnGenOpts, ts *txnState, rowID int64, isNew bool, n int, noMerge bool) []Write {
	var ws []Write
	ts.opSerial++
	for _, c := range g.pickCols(m, o, n) {
		ck := cellKey{c.Name, rowID}
		reps := 1
		if g.rng.Intn(8) == 0 {
			reps = 2 + g.rng.Intn(2) // several writes to one cell in one transaction
		}
		for r := 0; r < reps; r++ {
			w := Write{Col: c.Name, Via: 0}
			if g.rng.Intn(3) == 0 {
				w.Via = 1
			}
			merge := !noMerge && c.Kind.Mergeable() && g.rng.Intn(100) < o.MergePct && c.Name != "expire"
			// current value of the cell as this transaction has left it so far
			cv, has := ts.cur[ck], ts.curHas[ck]
			if _, seen := ts.curHas[ck]; !seen && !isNew && rowID >= 0 {
				cv, has = m.Cells[c.Name][uint32(rowID)]
			}
			if merge {
				w.Merge = true
				w.V = g.mergeDelta(c, len(cv.S))
				res := mergeVal(c.Kind, cv, has, w.V)
				lenChanging := c.Kind.Stringy() && len(res.S) != len(w.V.S)
				// boundary (KF-VARLEN-MERGE-REORDER): after a length-changing merge only further length-changing
				// merges issued by the SAME operation (consecutive in the buffer, hence in the same block section)
				// may touch the cell; in a later section even such a merge is shadowed by the appended Put
				if ts.varMerged[ck] && (!lenChanging || ts.varOp[ck] != ts.opSerial) {
					continue
				}
				if lenChanging && !ts.varMerged[ck] {
					ts.varMerged[ck] = true
					ts.varOp[ck] = ts.opSerial
				}
				ts.cur[ck], ts.curHas[ck] = res, true
			} else {
				if ts.varMerged[ck] {
					continue // boundary: no store after a length-changing merge on the same cell (KF-VARLEN-MERGE-REORDER)
				}
				w.V = g.value(c)
				if c.Kind == KBool && g.rng.Intn(3) == 0 {
					w.False = true
				}
				if c.Kind != KKey && g.rng.Intn(6) == 0 {
					w.Via = 2 + g.rng.Intn(2)
					if (c.Kind == KInt || c.Kind == KUint) && g.rng.Intn(2) == 0 {
						w.Via += 2 // narrower Go integer type through the any-typed path
					}
				}
				if c.Kind == KBool && w.False {
					w.Via = g.rng.Intn(2)
				}
				ts.cur[ck], ts.curHas[ck] = w.V, !(c.Kind == KBool && w.False)
			}
			ws = append(ws, w)
		}
	}
	return ws
}

// genTxn builds one transaction against the current model state.
func (g *Gen) genTxn(m *Model, live []uint32, o txnGenOpts) TxnSpec {
	ts := &txnState{written: map[int64]bool{}, deleted: map[int64]bool{}, varMerged: map[cellKey]bool{}, keysMade: map[string]bool{}, keysGone: map[string]bool{}, curLen: map[cellKey]int{},
		cur: map[cellKey]Val{}, curHas: map[cellKey]bool{}, varOp: map[cellKey]int{}}
	nops := 1 + g.rng.Intn(o.MaxOps)
	var spec TxnSpec
	keyed := m.KeyCol != ""
	failAt := -1
	if g.rng.Intn(100) < o.PFailInsert {
		failAt = g.rng.Intn(nops)
	}
	var inserted []int // op indexes of inserts
	total := o.PInsert + o.PUpdate + o.PDelete + o.PKeyOps
	table := m.keyTable()
	descending := g.rng.Intn(4) == 0
	var pickedRows []uint32
	pickLive := func() (uint32, bool) {
		if len(live) == 0 {
			return 0, false
		}
		for try := 0; try < 8; try++ {
			off := live[g.rng.Intn(len(live))]
			if !ts.deleted[int64(off)] {
				return off, true
			}
		}
		return 0, false
	}
	for i := 0; i < nops; i++ {
		x := g.rng.Intn(total)
		var op Op
		switch {
		case x < o.PInsert || (len(live) == 0 && !keyed):
			if len(live)+len(inserted) >= o.MaxLive {
				continue
			}
			if keyed {
				op.T = "inskey"
				if g.rng.Intn(2) == 0 {
					op.T = "upskey"
				}
				op.Key = g.keys[g.rng.Intn(len(g.keys))]
				if ts.keysMade[op.Key] {
					continue // boundary: second creating operation on a key created in this transaction
				}
				_, exists := table[op.Key]
				if !exists {
					ts.keysMade[op.Key] = true
				}
				if exists && op.T == "upskey" {
					off := int64(table[op.Key][0])
					if ts.deleted[off] {
						continue // boundary: store to and delete of the same row
					}
					ts.written[off] = true
					op.W = g.genWrites(m, o, ts, off, false, 1+g.rng.Intn(3), false)
					break
				}
			} else {
				op.T = "ins"
			}
			n := 1 + g.rng.Intn(4)
			if g.rng.Intn(100) < o.InsertAllPct {
				n = 1000
			}
			if g.rng.Intn(12) == 0 {
				n = 0
			}
			op.W = g.genWrites(m, o, ts, -int64(len(spec.Ops))-1, true, n, false)
			inserted = append(inserted, len(spec.Ops))
		case x < o.PInsert+o.PUpdate:
			// update: an existing row, or a row inserted earlier in this transaction
			if len(inserted) > 0 && g.rng.Intn(5) == 0 {
				ref := inserted[g.rng.Intn(len(inserted))]
				op.T = "at"
				op.Ref = ref + 1
				op.W = g.genWrites(m, o, ts, -int64(ref)-1, true, 1+g.rng.Intn(3), false)
				break
			}
			off, ok := pickLive()
			if !ok {
				continue
			}
			ts.written[int64(off)] = true
			op.T = "at"
			op.Off = off
			if keyed && g.rng.Intn(3) == 0 {
				if k, has := m.Cells[m.KeyCol][off]; has && !ts.keysGone[k.S] {
					op.T = "qkey"
					op.Key = k.S
				}
			}
			op.W = g.genWrites(m, o, ts, int64(off), false, 1+g.rng.Intn(4), false)
			if keyed && g.rng.Intn(4) == 0 {
				nk := g.keys[g.rng.Intn(len(g.keys))]
				if !ts.keysMade[nk] { // boundary: re-keying to a key created in this transaction
					if _, exists := table[nk]; !exists {
						ts.keysMade[nk] = true
					}
					op.W = append(op.W, Write{Col: m.KeyCol, V: Val{S: nk}})
				}
			}
			pickedRows = append(pickedRows, off)
		case x < o.PInsert+o.PUpdate+o.PDelete:
			off, ok := pickLive()
			if !ok || ts.written[int64(off)] {
				continue // boundary: store to and delete of the same row (KF-WRITE-THEN-DELETE-ORPHAN)
			}
			ts.deleted[int64(off)] = true
			op.T = "del"
			op.Off = off
			if keyed {
				if k, has := m.Cells[m.KeyCol][off]; has && g.rng.Intn(2) == 0 {
					op.T = "delkey"
					op.Key = k.S
				}
				if k, has := m.Cells[m.KeyCol][off]; has {
					ts.keysGone[k.S] = true
				}
			}
			if o.DupDelPct > 0 && g.rng.Intn(100) < o.DupDelPct {
				// the same delete once more: nothing is committed yet, so the row is still there and the key
				// still resolves - the second delete succeeds too and changes nothing
				spec.Ops = append(spec.Ops, op)
			}
		default:
			if !keyed {
				continue
			}
			// key operations on arbitrary keys of the alphabet (present or not)
			k := g.keys[g.rng.Intn(len(g.keys))]
			offs, exists := table[k]
			switch g.rng.Intn(3) {
			case 0:
				op.T = "qkey"
				op.Key = k
				if exists {
					if ts.deleted[int64(offs[0])] {
						continue
					}
					ts.written[int64(offs[0])] = true
					op.W = g.genWrites(m, o, ts, int64(offs[0]), false, 1+g.rng.Intn(2), false)
				} else {
					op.W = []Write{} // will fail
				}
			case 1:
				op.T = "delkey"
				op.Key = k
				if exists {
					if ts.written[int64(offs[0])] || ts.deleted[int64(offs[0])] {
						continue
					}
					ts.deleted[int64(offs[0])] = true
					ts.keysGone[k] = true
				}
			default:
				op.T = "inskey"
				op.Key = k
				if ts.keysMade[k] {
					continue
				}
				if !exists {
					if len(live)+len(inserted) >= o.MaxLive {
						continue
					}
					ts.keysMade[k] = true
					inserted = append(inserted, len(spec.Ops))
				}
				op.W = g.genWrites(m, o, ts, -int64(len(spec.Ops))-1, true, 1+g.rng.Intn(3), false)
			}
		}
		if op.T == "" {
			continue
		}
		if i == failAt && (op.T == "ins" || op.T == "at" || op.T == "inskey" || op.T == "upskey" || op.T == "qkey") {
			op.Fail = true
		}
		spec.Ops = append(spec.Ops, op)
		if op.Fail {
			break
		}
	}
	// the reorder below must not change the issue order of two operations on one row (the model
	// boundaries are computed in generation order): it is applied only when every row is touched once
	rowUse := map[int64]int{}
	for _, op := range spec.Ops {
		switch {
		case op.Ref > 0:
			rowUse[-int64(op.Ref)]++
		case op.T == "at" || op.T == "del":
			rowUse[int64(op.Off)]++
		case op.Key != "" || op.T == "qkey" || op.T == "upskey" || op.T == "delkey" || op.T == "inskey":
			if offs, ok := table[op.Key]; ok {
				rowUse[int64(offs[0])]++
			}
		}
	}
	for _, n := range rowUse {
		if n > 1 {
			descending = false
		}
	}
	if descending && len(pickedRows) > 1 {
		// force descending offsets among the updates of existing rows (negative deltas in the buffer)
		var idxs []int
		for i, op := range spec.Ops {
			if (op.T == "at") && op.Ref == 0 {
				idxs = append(idxs, i)
			}
		}
		ops := make([]Op, len(idxs))
		for j, i := range idxs {
			ops[j] = spec.Ops[i]
		}
		sort.SliceStable(ops, func(a, b int) bool { return ops[a].Off > ops[b].Off })
		for j, i := range idxs {
			spec.Ops[i] = ops[j]
		}
	}
	if g.rng.Intn(100) < o.PAbort {
		spec.Abort = true
		if g.rng.Intn(100) < o.SwallowPct {
			for i := range spec.Ops {
				if op := &spec.Ops[i]; (op.T == "ins" || op.T == "inskey") && !op.Fail {
					op.Fail, op.Swallow = true, true // the callback fails, the body carries on and returns an error at the end
					break
				}
			}
		}
	}
	return spec
}

// ---------------------------------------------------------------------------------------------
// Index predicate generator

func (g *Gen) pred(c ColSpec) Pred {
	k := c.Kind
	r := g.rng
	switch {
	case k == KBool:
		return Pred{Op: "bool"}
	case k.Float():
		ops := []string{"float<", "float>="}
		thr := []float64{0, -1.5, 10, 1e300, -1e-300}
		return Pred{Op: ops[r.Intn(2)], F: thr[r.Intn(len(thr))]}
	case k.Signed():
		ops := []string{"int<", "int>="}
		thr := []int64{0, -1, 1, -50, 50, 1000, -32768, 1 << 31}
		return Pred{Op: ops[r.Intn(2)], I: thr[r.Intn(len(thr))]}
	case k.Unsigned():
		ops := []string{"uint>", "uint<="}
		thr := []uint64{0, 1, 50, 1000, 0xffff, 1 << 31, 1 << 63}
		return Pred{Op: ops[r.Intn(2)], U: thr[r.Intn(len(thr))]}
	case k.IsRecord():
		if r.Intn(2) == 0 {
			return Pred{Op: "byte0odd"}
		}
		return Pred{Op: "len>", I: int64(4 + r.Intn(8))}
	case k == KEnum:
		if r.Intn(2) == 0 {
			return Pred{Op: "str==", S: g.enumAlph[r.Intn(len(g.enumAlph))]}
		}
		return Pred{Op: "strpre", S: "e"}
	default:
		switch r.Intn(3) {
		case 0:
			return Pred{Op: "str==", S: g.sortAlph[r.Intn(len(g.sortAlph))]}
		case 1:
			return Pred{Op: "strpre", S: "a"}
		default:
			return Pred{Op: "len>", I: int64(r.Intn(6))}
		}
	}
}

func colNames(cs []ColSpec) string {
	s := ""
	for _, c := range cs {
		s += fmt.Sprintf("%s:%s ", c.Name, c.Kind)
	}
	return s
}
