package main

// e1.go — E1 lock-step model monitor: seeded single-goroutine histories executed on the real
// collection and on the reference model, with a full-state dump and the property's oracle after
// every step.

import (
	"bytes"
	"fmt"
	"math"
	"math/rand"
	"os"
	"runtime/debug"
	"sort"
	"strings"

	"github.com/kelindar/column"
)

type e1Cfg struct {
	Prop         string
	Kinds        []Kind // initial columns
	LateKinds    []Kind // columns that may be created after rows exist
	KeyedPct     int
	LayoutPct    int
	Steps        int
	Pool         string
	Twin         bool
	Replica      bool
	InFlight     bool
	NIdx         int
	NSorted      int
	NTrig        int
	PIdxChg      int // per-step percent: create/drop index, sorted index or trigger
	PRestore     int // per-step percent: snapshot -> restore -> continue on the restored collection
	PNewCol      int
	PFilter      int
	Txn          txnGenOpts
	DumpEvery    int
	Oracles      map[string]bool
	Caps         []int
	FinalRestore bool
	DensePct     int  // percent of (unkeyed) histories that start from a dense multi-block layout with holes only beyond block 0
	TailPct      int  // percent of restore cycles whose snapshot is taken while transactions commit (non-empty log tail)
	Interlope    bool // C02: other transactions commit while the observed transaction is in flight
	PDelAll      int  // percent of transaction steps that are {filter chain; Txn.DeleteAll()}
	FlakyLogPct  int  // percent of histories whose logger reports an error on every 2nd..4th Append (after recording it)
}

var allCaps = []int{1, 63, 64, 65, 1000, 16384, 16385, 40000}

var allKinds = []Kind{KInt, KInt16, KInt32, KInt64, KUint, KUint16, KUint32, KUint64, KFloat32, KFloat64, KBool, KString, KStringCat, KEnum, KRecord, KRecordMerge, KInt64Mul, KStringMin}

func colName(k Kind, n int) string {
	base := map[Kind]string{KInt: "i", KInt16: "i16", KInt32: "i32", KInt64: "i64", KUint: "u", KUint16: "u16", KUint32: "u32", KUint64: "u64",
		KFloat32: "f32", KFloat64: "f64", KBool: "b", KString: "s", KStringCat: "sc", KEnum: "e", KRecord: "r", KRecordMerge: "rm", KKey: "k", KInt64Mul: "im", KStringMin: "sm"}[k]
	if n > 0 {
		return fmt.Sprintf("%s%d", base, n)
	}
	return base
}

var replayVerbose = os.Getenv("VERIF_REPLAY") != "" && os.Getenv("VERIF_QUIET") == ""

func oracleSet(names ...string) map[string]bool {
	m := map[string]bool{}
	for _, n := range names {
		m[n] = true
	}
	return m
}

type history struct {
	w           *W
	idx         int
	cfg         e1Cfg
	rng         *rand.Rand
	g           *Gen
	wd          *World
	log         []string
	caseID      string
	stats       map[string]int64
	before      *State // dump after the previous step
	lastID      map[uint32]uint64
	nCols       map[Kind]int
	failed      bool
	steps       int
	interlopers bool
	late        map[string]bool // columns created after the data
	dirtyBefore bool            // the pre-transaction dump is stale (another transaction committed meanwhile)
}

func (h *history) logf(format string, a ...any) {
	s := fmt.Sprintf(format, a...)
	if len(s) > 600 {
		s = s[:600] + "..."
	}
	if replayVerbose {
		fmt.Println("    | " + s)
	}
	h.log = append(h.log, s)
	if len(h.log) > 60 {
		h.log = h.log[len(h.log)-60:]
	}
}

func (h *history) violate(kind, detail, kf string) {
	h.failed = true
	n := len(h.log)
	from := 0
	if n > 25 {
		from = n - 25
	}
	h.w.Violate(h.idx, h.caseID, fmt.Sprintf("[%s] %s", kind, detail), kf, map[string]any{
		"phase": 0, "idx": h.idx, "engine": "E1", "capacity": h.wd.Cap, "columns": colNames(h.wd.M.Cols), "keyed": h.wd.M.KeyCol != "",
		"indexes": h.wd.M.Idx, "sorted": h.wd.M.Sorted, "triggers": h.wd.M.Trig, "step": h.steps, "last_steps": h.log[from:],
	})
}

func runHistory(w *W, idx int, cfg e1Cfg) {
	seed := w.Seed*7919 + int64(idx)*104729 + int64(len(cfg.Prop))
	h := &history{w: w, idx: idx, cfg: cfg, rng: rand.New(rand.NewSource(seed)), stats: map[string]int64{}, lastID: map[uint32]uint64{}, nCols: map[Kind]int{}, late: map[string]bool{}}
	h.caseID = fmt.Sprintf("E1:%s:hist%d", cfg.Prop, idx)
	w.Begin(idx, h.caseID)
	h.g = newGen(seed+1, cfg.Pool)
	caps := cfg.Caps
	if caps == nil {
		caps = allCaps
	}
	capacity := caps[h.rng.Intn(len(caps))]
	h.interlopers = cfg.Interlope && h.rng.Intn(2) == 0
	h.wd = newWorld(capacity, cfg.Twin && !h.interlopers, cfg.Replica) // the twin cannot follow offsets handed out beside in-flight reservations
	h.wd.Keys = h.g.keys
	if cfg.FlakyLogPct > 0 && h.rng.Intn(100) < cfg.FlakyLogPct && h.wd.Log != nil {
		h.wd.Log.failEvery = int64(2 + h.rng.Intn(3))
		h.stats["histories_with_failing_logger"]++
	}
	defer h.wd.Close()
	defer func() {
		if p := recover(); p != nil {
			h.violate("panic", fmt.Sprintf("panic: %v\n%s", p, trimStack(debug.Stack())), "")
		}
		for k, v := range h.stats {
			w.Stat(k, v)
		}
	}()
	h.setup()
	nsteps := cfg.Steps
	if h.wd.M.Focus != nil && nsteps > 40 {
		nsteps = 40 // dense layouts: every step ranges over tens of thousands of rows
	}
	for h.steps = 0; h.steps < nsteps && !h.failed; h.steps++ {
		h.step()
	}
	if !h.failed {
		h.final()
	}
	live := len(h.wd.M.Live)
	blocks := map[uint32]bool{}
	for off := range h.wd.M.Live {
		blocks[off>>14] = true
	}
	nontrivial := h.stats["txn_committed"] >= 3
	w.Eval(hashOf(cfg.Prop, h.before.hash(), h.stats["txn_committed"], h.stats["ops"]), nontrivial)
	w.StatMax("max_live_rows", int64(live))
	w.StatMax("enum_probe_chain_groups_in_alphabet", int64(len(enumChains())))
	if len(h.g.enumHot) == 3 {
		w.Stat("histories_concentrating_on_an_enum_probe_chain", 1)
	}
	w.StatMax("max_blocks_populated", int64(len(blocks)))
	if idx < 2 {
		n := len(h.log)
		if n > 6 {
			n = 6
		}
		w.Sample(map[string]any{"case": h.caseID, "capacity": capacity, "columns": colNames(h.wd.M.Cols), "first_steps": h.log[:n]})
	}
}

func trimStack(b []byte) string {
	lines := strings.Split(string(b), "\n")
	var keep []string
	for _, l := range lines {
		if strings.Contains(l, "kelindar/column") || strings.Contains(l, "verifharness") || strings.HasPrefix(l, "panic") {
			keep = append(keep, strings.TrimSpace(l))
		}
		if len(keep) > 14 {
			break
		}
	}
	return strings.Join(keep, "\n")
}

func (h *history) addColumn(k Kind) ColSpec {
	c := ColSpec{Name: colName(k, h.nCols[k]), Kind: k}
	h.nCols[k]++
	if err := h.wd.createColumn(c); err != nil {
		panic(err)
	}
	return c
}

func (h *history) setup() {
	cfg := h.cfg
	if h.rng.Intn(100) < cfg.KeyedPct {
		h.addColumn(KKey)
	}
	for _, k := range cfg.Kinds {
		h.addColumn(k)
	}
	h.logf("world: capacity=%d keyed=%v columns=%s", h.wd.Cap, h.wd.M.KeyCol != "", colNames(h.wd.M.Cols))
	// indexes created before the data
	for i := 0; i < cfg.NIdx; i++ {
		if h.rng.Intn(2) == 0 {
			h.newIndex()
		}
	}
	for i := 0; i < cfg.NSorted; i++ {
		if h.rng.Intn(2) == 0 {
			h.newSorted()
		}
	}
	for i := 0; i < cfg.NTrig; i++ {
		if h.rng.Intn(2) == 0 {
			h.newTrigger()
		}
	}
	switch {
	case h.wd.M.KeyCol == "" && h.rng.Intn(100) < cfg.DensePct:
		h.denseLayout()
	case h.rng.Intn(100) < cfg.LayoutPct:
		h.layout()
	}
	h.before = dumpState(h.wd.P, h.wd.M.view(h.wd.Keys))
}

func (h *history) indexableCols() []ColSpec {
	var out []ColSpec
	for _, c := range h.wd.M.Cols {
		if c.Name != "expire" && c.Kind != KKey {
			out = append(out, c)
		}
	}
	return out
}

func (h *history) newIndex() {
	cols := h.indexableCols()
	if len(cols) == 0 {
		return
	}
	c := cols[h.rng.Intn(len(cols))]
	ix := IndexSpec{Name: fmt.Sprintf("ix%d_%s", h.stats["idx_created"], c.Name), Col: c.Name, P: h.g.pred(c)} // names are not reused after a drop
	if h.rng.Intn(8) == 0 {
		// ... but an index may be re-defined under its name while it is registered (same column, new rule):
		// With(name) then follows the new rule
		for _, old := range h.wd.M.Idx {
			if old.Col == c.Name {
				ix.Name = old.Name
				h.stats["idx_redefined_under_their_name"]++
				break
			}
		}
	}
	if err := h.wd.createIndex(ix); err != nil {
		panic(err)
	}
	h.stats["idx_created"]++
	if len(h.wd.M.Live) > 0 {
		h.stats["idx_created_over_data"]++
	}
	h.logf("CreateIndex(%s on %s %s)", ix.Name, ix.Col, predString(ix.P))
}

func (h *history) newSorted() {
	var cols []ColSpec
	for _, c := range h.wd.M.Cols {
		if c.Kind.PlainString() || c.Kind == KEnum {
			cols = append(cols, c)
		}
	}
	if len(cols) == 0 {
		return
	}
	c := cols[h.rng.Intn(len(cols))]
	sx := SortSpec{Name: fmt.Sprintf("sx%d_%s", h.stats["sorted_created"], c.Name), Col: c.Name}
	if err := h.wd.createSortIndex(sx); err != nil {
		panic(err)
	}
	h.stats["sorted_created"]++
	if len(h.wd.M.Live) > 0 {
		h.stats["sorted_created_over_data"]++
	}
	h.logf("CreateSortIndex(%s on %s)", sx.Name, sx.Col)
}

func (h *history) newTrigger() {
	var cols []ColSpec
	for _, c := range h.wd.M.Cols {
		if c.Name != "expire" && c.Kind != KBool && c.Kind != KKey {
			cols = append(cols, c)
		}
	}
	if len(cols) == 0 {
		return
	}
	c := cols[h.rng.Intn(len(cols))]
	t := TrigSpec{Name: fmt.Sprintf("tg%d_%s", h.stats["trig_created"], c.Name), Col: c.Name}
	if err := h.wd.createTrigger(t); err != nil {
		panic(err)
	}
	h.stats["trig_created"]++
	h.logf("CreateTrigger(%s on %s)", t.Name, t.Col)
}

// layout: dense fill of up to three blocks, then mass delete leaving sparse survivors around
// word and block boundaries.
func (h *history) layout() {
	sizes := []int{70, 130, 16384, 16390, 33000, 40000, 49152}
	n := sizes[h.rng.Intn(len(sizes))]
	cols := h.g.pickCols(h.wd.M, h.cfg.Txn, 1+h.rng.Intn(2))
	keep := map[uint32]bool{}
	for _, b := range []uint32{0, 1, 62, 63, 64, 65, 127, 128, 16382, 16383, 16384, 16385, 32767, 32768, 32769, uint32(n - 1), uint32(n - 2)} {
		if int(b) < n && h.rng.Intn(2) == 0 {
			keep[b] = true
		}
	}
	for i := 0; i < 30+h.rng.Intn(60); i++ {
		keep[uint32(h.rng.Intn(n))] = true
	}
	if h.rng.Intn(6) == 0 { // only the last row survives (sparse tail block)
		keep = map[uint32]bool{uint32(n - 1): true}
	}
	if h.rng.Intn(8) == 0 { // an empty middle block
		for k := range keep {
			if k>>14 == 1 {
				delete(keep, k)
			}
		}
	}
	vals := make([][]Val, len(cols))
	for ci, c := range cols {
		vals[ci] = make([]Val, 8)
		for j := range vals[ci] {
			vals[ci][j] = h.g.value(c)
			if c.Kind.Stringy() && len(vals[ci][j].S) > 300 {
				vals[ci][j].S = vals[ci][j].S[:300]
			}
		}
	}
	keyed := h.wd.M.KeyCol != ""
	if keyed && n > 16390 {
		n = 16390 + h.rng.Intn(200) // two blocks are enough for keyed layouts
	}
	for _, c := range []*column.Collection{h.wd.P, h.wd.T} {
		if c == nil {
			continue
		}
		isP := c == h.wd.P
		c.Query(func(txn *column.Txn) error {
			for i := 0; i < n; i++ {
				var off uint32
				fn := func(r column.Row) error {
					off = r.Index()
					for ci, cs := range cols {
						writeCell(txn, r, cs, Write{Col: cs.Name, V: vals[ci][i%8]})
					}
					return nil
				}
				var err error
				if keyed {
					err = txn.InsertKey(fmt.Sprintf("L%d", i), fn)
				} else {
					_, err = txn.Insert(fn)
				}
				if err != nil {
					panic(err)
				}
				if isP {
					if h.wd.M.Live[off] {
						h.violate("insert", fmt.Sprintf("layout insert %d received live offset %d", i, off), "")
					}
					h.wd.M.Live[off] = true
					if keyed {
						h.wd.M.Cells[h.wd.M.KeyCol][off] = Val{S: fmt.Sprintf("L%d", i)}
					}
					for ci, cs := range cols {
						if cs.Kind == KBool {
							h.wd.M.Cells[cs.Name][off] = Val{B: 1}
						} else {
							h.wd.M.Cells[cs.Name][off] = vals[ci][i%8]
						}
					}
				}
			}
			return nil
		})
		h.feedReplica()
		// mass delete in a second transaction
		c.Query(func(txn *column.Txn) error {
			txn.Range(func(idx uint32) {
				if !keep[idx] {
					txn.DeleteAt(idx)
				}
			})
			return nil
		})
		h.feedReplica()
	}
	for _, off := range h.wd.M.liveSorted() {
		if !keep[off] {
			if keyed && off >= 16384 && len(h.wd.Keys) < 60 {
				// deleted keys of the second block are looked up in every later dump: they must stay gone
				h.wd.Keys = append(append([]string{}, h.wd.Keys...), h.wd.M.Cells[h.wd.M.KeyCol][off].S)
			}
			delete(h.wd.M.Live, off)
			for _, cs := range h.wd.M.Cols {
				delete(h.wd.M.Cells[cs.Name], off)
			}
		}
	}
	h.wd.cutTriggers()
	if keyed {
		h.stats["keyed_layouts"]++
	}
	h.stats["layouts"]++
	h.logf("layout: inserted %d rows (%s), deleted all but %d", n, colNames(cols), len(h.wd.M.Live))
}

// denseLayout: blocks stay densely filled and the only free offsets lie beyond block 0, so that
// later inserts REUSE offsets in blocks >= 1 (offset reuse normally happens at the lowest free
// offset). Values are dumped only for a focus set: the holes, their neighbours, a random sample
// and every row inserted afterwards; Range / Count are still checked over all rows.
func (h *history) denseLayout() {
	sizes := []int{16384 + 300, 33000, 20032}
	n := sizes[h.rng.Intn(len(sizes))]
	cols := h.g.pickCols(h.wd.M, h.cfg.Txn, 2+h.rng.Intn(3))
	vals := make([][]Val, len(cols))
	for ci, c := range cols {
		vals[ci] = make([]Val, 8)
		for j := range vals[ci] {
			vals[ci][j] = h.g.value(c)
			if c.Kind.Stringy() && len(vals[ci][j].S) > 40 {
				vals[ci][j].S = vals[ci][j].S[:40]
			}
		}
	}
	holes := map[uint32]bool{}
	for len(holes) < 40 {
		holes[uint32(16384+h.rng.Intn(n-16384))] = true
	}
	focus := map[uint32]bool{}
	for o := range holes {
		focus[o], focus[o-1], focus[o+1] = true, true, true
	}
	for i := 0; i < 60; i++ {
		focus[uint32(h.rng.Intn(n))] = true
	}
	h.wd.M.Focus = focus
	for _, c := range []*column.Collection{h.wd.P, h.wd.T} {
		if c == nil {
			continue
		}
		isP := c == h.wd.P
		c.Query(func(txn *column.Txn) error {
			for i := 0; i < n; i++ {
				off, err := txn.Insert(func(r column.Row) error {
					for ci, cs := range cols {
						writeCell(txn, r, cs, Write{Col: cs.Name, V: vals[ci][i%8]})
					}
					return nil
				})
				if err != nil {
					panic(err)
				}
				if isP {
					h.wd.M.Live[off] = true
					for ci, cs := range cols {
						if cs.Kind == KBool {
							h.wd.M.Cells[cs.Name][off] = Val{B: 1}
						} else {
							h.wd.M.Cells[cs.Name][off] = vals[ci][i%8]
						}
					}
				}
			}
			return nil
		})
		h.feedReplica()
		c.Query(func(txn *column.Txn) error {
			sorted := make([]uint32, 0, len(holes))
			for o := range holes {
				sorted = append(sorted, o)
			}
			sort.Slice(sorted, func(i, j int) bool { return sorted[i] < sorted[j] })
			for _, o := range sorted {
				txn.DeleteAt(o)
			}
			return nil
		})
		h.feedReplica()
	}
	for o := range holes {
		delete(h.wd.M.Live, o)
		for _, cs := range h.wd.M.Cols {
			delete(h.wd.M.Cells[cs.Name], o)
		}
	}
	h.wd.cutTriggers()
	h.stats["dense_layouts"]++
	h.logf("dense layout: %d rows (%s), 40 holes beyond block 0, %d focused rows", n, colNames(cols), len(focus))
}

// feedReplica replays every commit the primary emitted since the last call on the replica
// and returns the commits (metadata only is used afterwards).
type emitted struct {
	ID    uint64
	Chunk uint32
}

func (h *history) feedReplica() []emitted {
	commits := h.wd.Log.take()
	out := make([]emitted, 0, len(commits))
	for _, c := range commits {
		out = append(out, emitted{c.ID, uint32(c.Chunk)})
		if h.wd.R != nil {
			if err := h.wd.R.Replay(c); err != nil {
				h.violate("replica", "Replay returned "+err.Error(), "")
			}
		}
	}
	return out
}

func (h *history) liveRows() []uint32 {
	rows := h.wd.M.liveSorted()
	if f := h.wd.M.Focus; f != nil {
		out := rows[:0]
		for _, r := range rows {
			if f[r] {
				out = append(out, r)
			}
		}
		return out
	}
	return rows
}

func (h *history) step() {
	cfg := h.cfg
	x := h.rng.Intn(100)
	switch {
	case x < cfg.PIdxChg:
		h.schemaChange()
	case x < cfg.PIdxChg+cfg.PNewCol && len(cfg.LateKinds) > 0:
		k := cfg.LateKinds[h.rng.Intn(len(cfg.LateKinds))]
		if h.rng.Intn(4) == 0 {
			h.dropLateColumn()
		} else if h.nCols[k] < 2 {
			c := h.addColumn(k)
			h.late[c.Name] = true
			h.stats["columns_created_over_data"]++
			h.logf("CreateColumn(%s) over %d live rows", c.Name, len(h.wd.M.Live))
		}
	case x < cfg.PIdxChg+cfg.PNewCol+cfg.PRestore:
		h.restoreCycle(true)
		return
	case x < cfg.PIdxChg+cfg.PNewCol+cfg.PRestore+cfg.PFilter:
		h.filterCheck()
		return
	default:
		h.txnStep()
		return
	}
	h.check(nil, nil, false)
}

func (h *history) schemaChange() {
	m := h.wd.M
	switch h.rng.Intn(7) {
	case 0, 1:
		if h.cfg.NIdx > 0 && len(m.Idx) < 6 {
			h.newIndex()
		}
	case 2:
		if len(m.Idx) > 0 {
			ix := m.Idx[h.rng.Intn(len(m.Idx))]
			if err := h.wd.dropIndex(ix.Name); err != nil {
				panic(err)
			}
			h.stats["idx_dropped"]++
			h.logf("DropIndex(%s)", ix.Name)
		}
	case 3:
		if h.cfg.NSorted > 0 && len(m.Sorted) < 3 {
			h.newSorted()
		}
	case 4:
		if h.cfg.NTrig > 0 && len(m.Trig) < 3 {
			h.newTrigger()
		}
	case 5:
		if len(m.Trig) > 0 {
			t := m.Trig[h.rng.Intn(len(m.Trig))]
			if err := h.wd.dropTrigger(t.Name); err != nil {
				panic(err)
			}
			h.stats["trig_dropped"]++
			h.logf("DropTrigger(%s)", t.Name)
		}
	case 6:
		h.dropLateColumn()
	}
}

// dropLateColumn drops a column created after the data (one without index, sorted index or
// trigger): a later CreateColumn of the same kind re-uses the name and must start without values.
func (h *history) dropLateColumn() {
	m := h.wd.M
	if len(h.cfg.LateKinds) == 0 {
		return
	}
	var cand []ColSpec
	for _, c := range m.Cols {
		if !h.late[c.Name] {
			continue
		}
		used := false
		for _, ix := range m.Idx {
			used = used || ix.Col == c.Name
		}
		for _, sx := range m.Sorted {
			used = used || sx.Col == c.Name
		}
		for _, t := range m.Trig {
			used = used || t.Col == c.Name
		}
		if !used {
			cand = append(cand, c)
		}
	}
	if len(cand) > 0 {
		c := cand[h.rng.Intn(len(cand))]
		h.wd.dropColumn(c.Name)
		delete(h.late, c.Name)
		if colName(c.Kind, h.nCols[c.Kind]-1) == c.Name {
			h.nCols[c.Kind]-- // the name becomes available again
		}
		h.stats["columns_dropped"]++
		h.logf("DropColumn(%s)", c.Name)
	}
}

// readOnlyStep runs a transaction that reads, filters, aggregates and issues operations the API
// defines as no-ops (DeleteAt of a free offset, an empty row callback), and commits: nothing may
// change and nothing may be emitted to the change stream.
func (h *history) readOnlyStep() {
	m := h.wd.M
	free := uint32(0)
	for m.Live[free] {
		free++
	}
	live := h.liveRows()
	h.feedReplica()
	h.wd.cutTriggers()
	var deleted bool
	err := h.wd.P.Query(func(txn *column.Txn) error {
		txn.Count()
		txn.With("expire").Count()
		txn.Range(func(uint32) {})
		deleted = txn.DeleteAt(free) // not a live row: refused, nothing buffered
		if len(live) > 0 {
			txn.QueryAt(live[h.rng.Intn(len(live))], func(r column.Row) error { r.Int64("expire"); return nil })
		}
		txn.Int64("expire").Sum()
		return nil
	})
	// the collection-level shortcuts on rows / keys that are not there: refused, nothing emitted
	if h.wd.P.DeleteAt(free) {
		deleted = true
	}
	if m.KeyCol != "" {
		for _, k := range h.wd.Keys {
			if _, exists := m.keyOffset(k); !exists {
				if h.wd.P.DeleteKey(k) == nil {
					deleted = true
				}
				h.wd.P.QueryKey(k, func(r column.Row) error { r.SetInt64("expire", 1); return nil }) // fails before the callback
				break
			}
		}
	}
	h.stats["read_only_txns"]++
	h.logf("read-only txn{Count; With(expire).Count; Range; DeleteAt(free %d); QueryAt; Sum}; Collection.DeleteAt(free); DeleteKey/QueryKey(absent) => %v", free, err)
	emitted := h.feedReplica()
	trig := h.wd.cutTriggers()
	ncb := 0
	for _, evs := range trig {
		ncb += len(evs)
	}
	switch {
	case err != nil || deleted:
		h.violate("txn", fmt.Sprintf("read-only transaction: err=%v, DeleteAt(free offset %d)=%v", err, free, deleted), "")
	case len(emitted) > 0 && h.cfg.Oracles["stream"]:
		h.violate("stream", fmt.Sprintf("a transaction that changed nothing emitted %d commit(s): %v", len(emitted), emitted), "")
	case ncb > 0 && h.cfg.Oracles["trig"]:
		h.violate("trigger", fmt.Sprintf("a transaction that changed nothing caused %d trigger callbacks", ncb), "")
	}
}

func (h *history) txnStep() {
	cfg := h.cfg
	m := h.wd.M
	if (cfg.Oracles["stream"] || cfg.Oracles["trig"] || cfg.Oracles["rollback"]) && h.rng.Intn(12) == 0 {
		h.readOnlyStep()
		if !h.failed {
			h.check(nil, nil, false)
		}
		return
	}
	spec := h.g.genTxn(m, h.liveRows(), cfg.Txn)
	if cfg.PDelAll > 0 && h.rng.Intn(100) < cfg.PDelAll && len(m.Live) > 0 {
		spec = TxnSpec{Ops: []Op{{T: "delall", Chain: h.genChain()}}, Abort: h.rng.Intn(100) < cfg.Txn.PAbort}
		h.stats["delete_all_transactions"]++
		if m.KeyCol != "" && h.rng.Intn(3) == 0 {
			// a narrowed selection, then DeleteKey of an existing key: deleting by key does not depend on the selection
			for _, k := range h.wd.Keys {
				if _, exists := m.keyOffset(k); exists {
					spec.Ops = []Op{{T: "delkey", Key: k, Chain: h.genChain()}}
					h.stats["delete_key_behind_a_filter_chain"]++
					break
				}
			}
		}
	}
	if len(spec.Ops) == 0 {
		return
	}
	var observe func(int, []uint32)
	inflightKF := 0
	if cfg.InFlight && h.rng.Intn(3) == 0 {
		sv := m.view(h.wd.Keys)
		observe = func(afterOp int, reserved []uint32) {
			if h.interlopers && h.rng.Intn(3) == 0 {
				h.interlope(&spec, reserved)
			}
			if h.dirtyBefore {
				return // another transaction committed meanwhile: the pre-transaction dump is no longer the reference
			}
			done := make(chan *State)
			go func() { done <- dumpState(h.wd.P, sv) }() // a second goroutine looks while the body is blocked
			st := <-done
			h.stats["inflight_observations"]++
			diff, kf := inflightDiff(h.before, st, reserved, sv)
			if diff != "" && !h.failed {
				if kf {
					inflightKF++
				} else {
					h.violate("in-flight", fmt.Sprintf("after op %d of %s a concurrent reader sees: %s", afterOp, spec.String(), diff), "")
				}
			}
			if h.rng.Intn(4) == 0 {
				// a snapshot taken now must restore to the pre-transaction state
				h.stats["inflight_snapshots"]++
				if d, kf2 := h.inflightSnapshot(reserved, sv); d != "" && !h.failed {
					if kf2 {
						inflightKF++
					} else {
						h.violate("in-flight-snapshot", fmt.Sprintf("after op %d of %s: %s", afterOp, spec.String(), d), "")
					}
				}
			}
		}
	}
	h.wd.cutTriggers()
	h.dirtyBefore = false
	if h.interlopers && observe == nil && h.rng.Intn(4) == 0 {
		observe = func(afterOp int, reserved []uint32) {
			if h.rng.Intn(2) == 0 {
				h.interlope(&spec, reserved)
			}
		}
	}
	rep := h.wd.execTxn(h.wd.P, &spec, true, observe)
	h.logf("%s => %v", spec.String(), rep.Err)
	h.stats["txns"]++
	h.stats["ops"] += int64(len(spec.Ops))
	if inflightKF > 0 {
		h.w.Violate(h.idx, h.caseID, fmt.Sprintf("[in-flight] while %s was in flight a concurrent reader saw the rows its inserts reserved (no values, Count larger by their number)", spec.String()),
			"KF-INFLIGHT-INSERT", map[string]any{"idx": h.idx})
	}
	if rep.Panic != "" {
		h.violate("panic", "panic inside Query: "+rep.Panic+" in "+spec.String(), "")
		return
	}
	// the transaction's outcome must be what its body decided
	wantErr := spec.Abort
	for _, o := range spec.Ops {
		if o.Err != "" && o.T != "del" {
			wantErr = true
		}
	}
	if (rep.Err != nil) != wantErr {
		h.violate("txn", fmt.Sprintf("Query returned %v for %s", rep.Err, spec.String()), "")
		return
	}
	committed := rep.Err == nil
	var trigWant map[string][]TrigEvent
	if committed {
		h.stats["txn_committed"]++
		if len(changedBlocks(spec.Ops)) > 1 {
			h.stats["txn_multi_block"]++
		}
		trigWant = m.Apply(spec.Ops)
		if h.wd.T != nil {
			tspec := cloneSpec(spec)
			trep := h.wd.execTxn(h.wd.T, &tspec, false, nil)
			if trep.Panic != "" || trep.Err != nil {
				h.violate("twin", fmt.Sprintf("twin collection: %v %s for %s", trep.Err, trep.Panic, spec.String()), "")
				return
			}
			if h.cfg.Oracles["rollback"] {
				for i := range spec.Ops {
					a, b := spec.Ops[i], tspec.Ops[i]
					if (a.T == "ins" || a.T == "inskey" || a.T == "upskey") && a.HasOff && b.HasOff && a.GotOff != b.GotOff {
						h.violate("rollback", fmt.Sprintf("insert #%d of %s received offset %d; on a twin collection that never ran the rolled-back transactions it received %d (later inserts behave differently)",
							i, spec.String(), a.GotOff, b.GotOff), "")
						return
					}
				}
			}
		}
	} else {
		h.stats["txn_rolled_back"]++
		for _, o := range spec.Ops {
			if o.Done && o.HasOff && (o.T == "ins" || o.T == "inskey") && o.Err == "" {
				h.stats["rollbacks_with_successful_insert"]++
				break
			}
		}
	}
	o := h.cfg.Oracles
	if replayVerbose && m.KeyCol != "" {
		line := "    |   keys real/model:"
		for _, k := range h.wd.Keys {
			real := int64(-1)
			h.wd.P.QueryKey(k, func(r column.Row) error { real = int64(r.Index()); return nil })
			mo := int64(-1)
			if off, ok := m.keyOffset(k); ok {
				mo = int64(off)
			}
			if real != -1 || mo != -1 {
				line += fmt.Sprintf(" %q:%d/%d", k, real, mo)
			}
		}
		fmt.Println(line)
	}
	if replayVerbose {
		// model/real divergence is reported in a verbose replay whatever the property's oracle is
		stv := dumpState(h.wd.P, m.view(h.wd.Keys))
		if d := cmpValues(stv, m); d != "" { // m already holds this transaction if it committed
			fmt.Println("    |   model/real value divergence after this transaction:", d)
		}
	}
	if replayVerbose && len(rep.KeyDiffs)+len(rep.InsDiffs)+len(rep.OwnReads) > 0 {
		fmt.Println("    |   executor notes:", rep.KeyDiffs, rep.InsDiffs, rep.OwnReads)
	}
	if o["own-reads"] && len(rep.OwnReads) > 0 {
		h.violate("own-reads", rep.OwnReads[0]+" in "+spec.String(), "")
		return
	}
	if o["keys"] && len(rep.KeyDiffs) > 0 {
		h.violate("keys", rep.KeyDiffs[0]+" in "+spec.String(), "")
		return
	}
	if o["live"] && len(rep.InsDiffs) > 0 {
		h.violate("insert", rep.InsDiffs[0]+" in "+spec.String(), "")
		return
	}
	h.check(&spec, trigWant, !committed)
}

// interlope commits a small transaction of "another client" while the observed transaction is
// in flight: inserts and updates of rows the observed transaction does not touch. It is applied
// to the model at once (it is committed). Its inserts must not receive an offset the in-flight
// transaction holds.
func (h *history) interlope(inflight *TxnSpec, reserved []uint32) {
	m := h.wd.M
	busy := map[uint32]bool{}
	for _, o := range inflight.Ops {
		if o.T == "at" || o.T == "del" || o.HasOff {
			busy[o.Off] = true
			if o.HasOff {
				busy[o.GotOff] = true
			}
		}
		if o.T == "qkey" || o.T == "upskey" || o.T == "inskey" || o.T == "delkey" { // (the empty string is a key of the alphabet)
			if off, ok := m.keyOffset(o.Key); ok {
				busy[off] = true
			}
		}
	}
	var live []uint32
	for _, r := range h.liveRows() {
		if !busy[r] {
			live = append(live, r)
		}
	}
	opts := h.cfg.Txn
	opts.PDelete, opts.PKeyOps, opts.PFailInsert, opts.PAbort, opts.MaxOps = 0, 0, 0, 0, 2
	// keys the in-flight transaction works with: another client creating one of them now would be the
	// two-transaction form of KF-KEY-CHECK-THEN-ACT (probed by the E2 key scenarios), so it uses other keys
	inflightKeys := map[string]bool{}
	for _, o := range inflight.Ops {
		if o.T == "qkey" || o.T == "delkey" || o.T == "inskey" || o.T == "upskey" {
			inflightKeys[o.Key] = true
		}
		for _, w := range o.W {
			if w.Col == m.KeyCol {
				inflightKeys[w.V.S] = true
			}
		}
	}
	t2 := h.g.genTxn(m, live, opts)
	var kept []Op
	for _, o := range t2.Ops {
		if o.T == "inskey" || o.T == "upskey" {
			off, exists := m.keyOffset(o.Key)
			if !inflightKeys[o.Key] && !(exists && (busy[off] || o.T == "inskey")) {
				kept = append(kept, o)
			}
			continue
		}
		if o.T == "at" || o.T == "ins" {
			// boundary: no creating / re-keying key operation beside an in-flight transaction
			// (two-transaction form of KF-KEY-CHECK-THEN-ACT, probed by the E2 key scenarios)
			var ws []Write
			for _, w := range o.W {
				if w.Col != m.KeyCol {
					ws = append(ws, w)
				}
			}
			o.W = ws
			kept = append(kept, o)
		}
	}
	// boundary re-check: dropping operations invalidates the generator's simulation of this transaction
	// (a merge generated on top of a store that was dropped now lands on the committed value) - no
	// concatenating merge may push a value towards the 65 535-byte buffer limit
	for i := range kept {
		o := &kept[i]
		if o.T != "at" {
			continue
		}
		var ws []Write
		for _, w := range o.W {
			if k := m.col(w.Col).Kind; w.Merge && (k == KStringCat || k == KRecordMerge) && len(m.Cells[w.Col][o.Off].S)+len(w.V.S) > 60000 {
				continue
			}
			ws = append(ws, w)
		}
		o.W = ws
	}
	t2.Ops = kept
	if len(t2.Ops) == 0 {
		return
	}
	rep := h.wd.execTxn(h.wd.P, &t2, false, nil)
	h.stats["interloper_txns"]++
	if replayVerbose {
		fmt.Printf("    |   interloper NoOpW: ")
		for _, o := range t2.Ops {
			fmt.Printf("%v ", o.NoOpW)
		}
		fmt.Println()
	}
	h.logf("  (meanwhile another client commits %s => %v)", t2.String(), rep.Err)
	if rep.Panic != "" || rep.Err != nil {
		h.violate("txn", fmt.Sprintf("transaction %s of another client failed while %s was in flight: %v %s", t2.String(), inflight.String(), rep.Err, rep.Panic), "")
		return
	}
	for _, o := range t2.Ops {
		if (o.T == "ins" || o.Created) && o.HasOff {
			for _, r := range reserved {
				if r == o.GotOff && h.cfg.Oracles["live"] {
					h.violate("insert", fmt.Sprintf("insert of another client received offset %d which the in-flight transaction %s holds", r, inflight.String()), "")
				}
			}
			if m.Live[o.GotOff] && h.cfg.Oracles["live"] {
				h.violate("insert", fmt.Sprintf("insert of another client received offset %d which is occupied by a live row", o.GotOff), "")
			}
		}
	}
	if h.failed {
		return
	}
	m.Apply(t2.Ops)
	h.dirtyBefore = true
}

// cloneDone copies a spec including the executor's results.
func cloneDone(s TxnSpec) TxnSpec {
	out := TxnSpec{Abort: s.Abort, Ops: make([]Op, len(s.Ops))}
	copy(out.Ops, s.Ops)
	return out
}

func cloneSpec(s TxnSpec) TxnSpec {
	out := TxnSpec{Abort: s.Abort, Ops: make([]Op, len(s.Ops))}
	for i, o := range s.Ops {
		o.Done, o.HasOff, o.GotOff, o.Err, o.NoOpW, o.Created = false, false, 0, "", nil, false
		out.Ops[i] = o
	}
	return out
}

// inflightDiff compares what a concurrent reader saw with the pre-transaction state. The only
// tolerated difference is the signature of KF-INFLIGHT-INSERT (rows reserved by this
// transaction's own successful inserts, without any value, Count larger by their number).
func inflightDiff(before, st *State, reserved []uint32, sv schemaView) (string, bool) {
	d := cmpStates(before, st, "before", "in-flight", sv)
	if d == "" {
		return "", false
	}
	res := map[uint32]bool{}
	for _, r := range reserved {
		res[r] = true
	}
	stripped := *st
	stripped.Rows = nil
	removed := 0
	for _, off := range st.Rows {
		bare := true
		for _, c := range sv.Cols {
			if _, ok := st.Cells[c.Name][off]; ok {
				bare = false
			}
		}
		if res[off] && bare {
			removed++
			continue
		}
		stripped.Rows = append(stripped.Rows, off)
	}
	stripped.Count -= removed
	stripped.TxnCount -= removed
	if removed > 0 {
		d2 := cmpStates(before, &stripped, "before", "in-flight", sv)
		if d2 == "" {
			return d, true
		}
		return d + " | and, leaving aside the rows reserved by the in-flight inserts: " + d2, false
	}
	return d, false
}

func (h *history) inflightSnapshot(reserved []uint32, sv schemaView) (string, bool) {
	var buf bytes.Buffer
	if err := h.wd.P.Snapshot(&buf); err != nil {
		return "Snapshot failed: " + err.Error(), false
	}
	c, err := h.wd.buildLike(h.wd.Cap, nil, false, -1)
	if err != nil {
		panic(err)
	}
	defer c.Close()
	if err := c.Restore(bytes.NewReader(buf.Bytes())); err != nil {
		return "Restore failed: " + err.Error(), false
	}
	st := dumpState(c, sv)
	d, kf := inflightDiff(h.before, st, reserved, sv)
	if d != "" {
		d = "a snapshot taken now restores to: " + d
	}
	return d, kf
}

// check dumps the primary and applies the configured oracles.
func (h *history) check(spec *TxnSpec, trigWant map[string][]TrigEvent, rolledBack bool) {
	if h.failed {
		return
	}
	o := h.cfg.Oracles
	m := h.wd.M
	sv := m.view(h.wd.Keys)
	emittedNow := h.feedReplica()
	trigGot := h.wd.cutTriggers()
	every := h.cfg.DumpEvery
	if every <= 0 {
		every = 1
	}
	doDump := rolledBack || h.steps%every == 0 || h.steps < 20
	desc := "(schema change)"
	if spec != nil {
		desc = spec.String()
	}
	// ---- change stream (C15) ----
	if o["stream"] && spec != nil && !h.dirtyBefore {
		want := map[uint32]bool{}
		if !rolledBack {
			want = changedBlocks(spec.Ops)
		}
		got := map[uint32]int{}
		for _, e := range emittedNow {
			got[e.Chunk]++
			if e.ID == 0 {
				h.violate("stream", fmt.Sprintf("commit for block %d carries ID 0 after %s", e.Chunk, desc), "")
				return
			}
			if h.wd.idsSeen[e.ID] {
				h.violate("stream", fmt.Sprintf("commit ID %d emitted twice (block %d) after %s", e.ID, e.Chunk, desc), "")
				return
			}
			h.wd.idsSeen[e.ID] = true
			if last := h.lastID[e.Chunk]; e.ID <= last {
				h.violate("stream", fmt.Sprintf("block %d: commit ID %d arrives after %d", e.Chunk, e.ID, last), "")
				return
			}
			h.lastID[e.Chunk] = e.ID
		}
		h.stats["commits_observed"] += int64(len(emittedNow))
		for b := range want {
			if got[b] != 1 {
				h.violate("stream", fmt.Sprintf("%s changed block %d but emitted %d commits for it (emitted: %v)", desc, b, got[b], emittedNow), "")
				return
			}
		}
		for b, n := range got {
			if !want[b] {
				what := "did not change"
				if rolledBack {
					what = "rolled back, yet"
				}
				h.violate("stream", fmt.Sprintf("%s %s block %d but emitted %d commit(s) for it", desc, what, b, n), "")
				return
			}
		}
	}
	// ---- triggers (C19) ----
	if o["trig"] && spec != nil {
		if d := cmpTriggers(m, trigGot, trigWant, rolledBack); d != "" {
			h.violate("trigger", d+" after "+desc, "")
			return
		}
		for _, evs := range trigGot {
			h.stats["trigger_callbacks"] += int64(len(evs))
		}
	}
	if !doDump {
		return
	}
	st := dumpState(h.wd.P, sv)
	h.stats["dumps"]++
	if rolledBack && o["rollback"] && !h.dirtyBefore {
		if d := cmpStates(h.before, st, "before", "after-rollback", sv); d != "" {
			h.violate("rollback", fmt.Sprintf("%s returned an error but left a trace: %s", desc, d), "")
			return
		}
		if len(emittedNow) > 0 {
			h.violate("rollback", fmt.Sprintf("%s rolled back but emitted %d commit(s)", desc, len(emittedNow)), "")
			return
		}
	}
	if o["live"] {
		if d := cmpLive(st, m); d != "" {
			h.violate("live", d+" after "+desc, "")
			return
		}
	}
	if o["values"] {
		if d := cmpValues(st, m); d != "" {
			h.violate("values", d+" after "+desc, "")
			return
		}
	}
	if o["index"] {
		if d := cmpIndexes(st, sv); d != "" {
			h.violate("index", d+" after "+desc, "")
			return
		}
		h.stats["index_comparisons"] += int64(len(sv.Idx))
	}
	if o["sorted"] {
		if d := cmpSorted(st, sv); d != "" {
			h.violate("sorted", d+" after "+desc, "")
			return
		}
		for _, sx := range sv.Sorted {
			h.stats["ascend_rows"] += int64(len(st.Sorted[sx.Name]))
			vals := st.SortedV[sx.Name]
			for i := 1; i < len(vals); i++ {
				if vals[i] == vals[i-1] {
					h.stats["ascend_equal_neighbours"]++
				}
			}
		}
	}
	if o["keys"] {
		if d := cmpKeys(st, m); d != "" {
			h.violate("keys", d+" after "+desc, "")
			return
		}
		h.stats["key_lookups"] += int64(len(st.Keys))
	}
	if (o["replica"] || o["replica-index"]) && h.wd.R != nil {
		rs := dumpState(h.wd.R, sv)
		if o["replica"] {
			if d := cmpStates(st, rs, "primary", "replica", sv); d != "" {
				h.violate("replica", d+" after "+desc, "")
				return
			}
		}
		if d := cmpIndexes(rs, sv); d != "" && o["replica-index"] {
			h.violate("index", "on the stream replica: "+d+" after "+desc, "")
			return
		}
		h.stats["replica_comparisons"]++
	}
	h.before = st
}

func cmpTriggers(m *Model, got map[string][]TrigEvent, want map[string][]TrigEvent, rolledBack bool) string {
	known := map[string]bool{}
	for _, t := range m.Trig {
		known[t.Name] = true
		g := got[t.Name]
		var w []TrigEvent
		if !rolledBack {
			w = want[t.Col]
		}
		kind := m.col(t.Col).Kind
		// per-row sequences
		gr := map[uint32][]TrigEvent{}
		wr := map[uint32][]TrigEvent{}
		for _, e := range g {
			gr[e.Off] = append(gr[e.Off], e)
		}
		for _, e := range w {
			wr[e.Off] = append(wr[e.Off], e)
		}
		show := func(es []TrigEvent) string {
			s := ""
			for _, e := range es {
				if e.Delete {
					s += "delete "
				} else {
					s += e.V.show(kind) + " "
				}
			}
			return "[" + strings.TrimSpace(s) + "]"
		}
		offs := map[uint32]bool{}
		for o := range gr {
			offs[o] = true
		}
		for o := range wr {
			offs[o] = true
		}
		sorted := make([]uint32, 0, len(offs))
		for o := range offs {
			sorted = append(sorted, o)
		}
		sort.Slice(sorted, func(i, j int) bool { return sorted[i] < sorted[j] })
		for _, off := range sorted {
			a, b := gr[off], wr[off]
			// row deletions are applied before the stores of the same block; only relative order per kind matters
			same := len(a) == len(b)
			if same {
				for i := range a {
					if a[i].Delete != b[i].Delete || (!a[i].Delete && !valEqual(kind, a[i].V, b[i].V)) {
						same = false
					}
				}
			}
			if !same {
				return fmt.Sprintf("trigger %s on %s(%s): row %d callbacks %s, expected %s", t.Name, t.Col, kind, off, show(a), show(b))
			}
		}
	}
	for name, evs := range got {
		if !known[name] && len(evs) > 0 {
			return fmt.Sprintf("trigger %s was called %d times although it is not registered", name, len(evs))
		}
	}
	return ""
}

// restoreCycle: snapshot -> restore into a fresh collection (possibly another capacity) ->
// compare -> continue the history on the restored collection.
func (h *history) restoreCycle(swap bool) {
	if h.failed {
		return
	}
	o := h.cfg.Oracles
	m := h.wd.M
	sv := m.view(h.wd.Keys)
	h.feedReplica()
	var buf bytes.Buffer
	tail := 0
	if h.rng.Intn(100) < h.cfg.TailPct {
		// transactions commit while the snapshot is running (same goroutine, at the lock-free hook
		// points): the snapshot carries a log tail and Restore has to replay it
		budget := 1 + h.rng.Intn(3)
		hook := func(point string, c *column.Collection, chunk uint32) {
			if c == h.wd.P && budget > 0 && (point == "snapshot.recorderOpen" || point == "snapshot.beforeBlock" || point == "snapshot.beforeRecorderClose") {
				budget--
				before := len(h.wd.Log.commits)
				h.txnQuiet()
				tail += len(h.wd.Log.commits) - before
			}
		}
		column.VerifHook.Store(&hook)
	}
	err := h.wd.P.Snapshot(&buf)
	column.VerifHook.Store(nil)
	if err != nil {
		if o["restore"] {
			h.violate("restore", "Snapshot failed: "+err.Error(), "")
		}
		return
	}
	if tail > 0 {
		h.stats["restores_with_log_tail"]++
	}
	h.feedReplica()
	h.wd.cutTriggers()
	st := dumpState(h.wd.P, sv)
	capacity := h.wd.Cap
	if h.rng.Intn(2) == 0 {
		capacity = allCaps[h.rng.Intn(len(allCaps))]
	}
	lg := &recLogger{}
	h.wd.trigMu.Lock()
	h.wd.gen++
	gen := h.wd.gen
	h.wd.trigMu.Unlock()
	c, err := h.wd.buildLike(capacity, lg, true, gen)
	if err != nil {
		panic(err)
	}
	if err := c.Restore(bytes.NewReader(buf.Bytes())); err != nil {
		if o["restore"] {
			h.violate("restore", "Restore failed: "+err.Error(), "")
		}
		c.Close()
		return
	}
	rs := dumpState(c, sv)
	h.stats["restores"]++
	h.stats["restored_rows"] += int64(len(rs.Rows))
	h.logf("snapshot (%d bytes, %d commits logged while it ran) -> restore into capacity %d -> continue on the restored collection", buf.Len(), tail, capacity)
	if o["restore"] {
		if d := cmpStates(st, rs, "original", "restored", sv); d != "" {
			h.violate("restore", d, "")
			c.Close()
			return
		}
		if d := cmpKeys(rs, m); d != "" {
			h.violate("restore", "restored collection: "+d, "")
			c.Close()
			return
		}
	}
	if o["index"] {
		if d := cmpIndexes(rs, sv); d != "" {
			h.violate("index", "on the restored collection: "+d, "")
			c.Close()
			return
		}
	}
	if o["sorted"] {
		if d := cmpSorted(rs, sv); d != "" {
			h.violate("sorted", "on the restored collection: "+d, "")
			c.Close()
			return
		}
	}
	if !swap {
		c.Close()
		return
	}
	h.wd.closed = append(h.wd.closed, h.wd.P)
	if h.wd.T != nil {
		// the twin never went through a restore: from here on its allocator state may legitimately differ
		h.wd.closed = append(h.wd.closed, h.wd.T)
		h.wd.T = nil
	}
	h.wd.P = c
	h.wd.Cap = capacity
	h.wd.Log = lg
	lg.take()
	h.wd.cutTriggers()
	h.lastID = map[uint32]uint64{}
	h.before = rs
}

func (h *history) final() {
	h.steps = h.cfg.Steps
	h.cfg.DumpEvery = 1
	h.check(nil, nil, false)
	if h.cfg.FinalRestore && !h.failed {
		h.restoreCycle(false)
	}
}

// ---------------------------------------------------------------------------------------------
// Filter chains and aggregates (C04)

type filterStep struct {
	Op    string   `json:"op"`
	Names []string `json:"names,omitempty"`
	Col   string   `json:"col,omitempty"`
	P     Pred     `json:"p,omitempty"`
}

func (f filterStep) String() string {
	if f.Col != "" {
		return fmt.Sprintf("%s(%s,%s)", f.Op, f.Col, predString(f.P))
	}
	return fmt.Sprintf("%s(%s)", f.Op, strings.Join(f.Names, ","))
}

func (h *history) genChain() []filterStep {
	m := h.wd.M
	var names []string // things usable with With/Without/Union
	for _, ix := range m.Idx {
		names = append(names, ix.Name)
	}
	for _, c := range m.Cols {
		names = append(names, c.Name)
	}
	pick := func(n int, allowMissing bool) []string {
		out := make([]string, 0, n)
		for i := 0; i < n; i++ {
			if allowMissing && h.rng.Intn(10) == 0 {
				out = append(out, "no_such_column")
			} else {
				out = append(out, names[h.rng.Intn(len(names))])
			}
		}
		return out
	}
	n := 1 + h.rng.Intn(5)
	var chain []filterStep
	for i := 0; i < n; i++ {
		switch h.rng.Intn(9) {
		case 0:
			chain = append(chain, filterStep{Op: "with", Names: pick(1+h.rng.Intn(2), true)})
		case 1:
			chain = append(chain, filterStep{Op: "without", Names: pick(1+h.rng.Intn(2), true)})
		case 2:
			ns := pick(1+h.rng.Intn(3), true)
			if len(chain) == 0 && ns[0] == "no_such_column" {
				ns[0] = names[h.rng.Intn(len(names))] // boundary: first-call Union starts from a known name
			}
			chain = append(chain, filterStep{Op: "union", Names: ns})
		case 3:
			ns := pick(1+h.rng.Intn(3), true)
			if len(chain) == 0 && ns[0] == "no_such_column" {
				ns[0] = names[h.rng.Intn(len(names))]
			}
			chain = append(chain, filterStep{Op: "withunion", Names: ns})
		default:
			c := m.Cols[h.rng.Intn(len(m.Cols))]
			if h.rng.Intn(12) == 0 {
				chain = append(chain, filterStep{Op: "withint", Col: "no_such_column", P: Pred{Op: "int<", I: 0}})
				continue
			}
			k := c.Kind
			if h.cfg.Pool == "agg" && wideCol(c.Name) {
				// predicates that tell neighbouring 64-bit values apart
				if k == KInt64 {
					chain = append(chain, filterStep{Op: "withint", Col: c.Name, P: Pred{Op: []string{"int<", "int>="}[h.rng.Intn(2)], I: wideI[h.rng.Intn(len(wideI))]}})
				} else {
					chain = append(chain, filterStep{Op: "withuint", Col: c.Name, P: Pred{Op: []string{"uint>", "uint<="}[h.rng.Intn(2)], U: wideU[h.rng.Intn(len(wideU))]}})
				}
				continue
			}
			switch {
			case k.Numeric():
				switch h.rng.Intn(4) {
				case 0:
					chain = append(chain, filterStep{Op: "withint", Col: c.Name, P: Pred{Op: []string{"int<", "int>="}[h.rng.Intn(2)], I: int64(h.rng.Intn(21) - 10)}})
				case 1:
					if k.Float() {
						chain = append(chain, filterStep{Op: "withfloat", Col: c.Name, P: Pred{Op: "float<", F: 0.5}})
					} else {
						chain = append(chain, filterStep{Op: "withuint", Col: c.Name, P: Pred{Op: []string{"uint>", "uint<="}[h.rng.Intn(2)], U: uint64(h.rng.Intn(50))}})
					}
				case 2:
					chain = append(chain, filterStep{Op: "withfloat", Col: c.Name, P: Pred{Op: []string{"float<", "float>="}[h.rng.Intn(2)], F: float64(h.rng.Intn(41)-20) / 2}})
				default:
					chain = append(chain, filterStep{Op: "withvalue", Col: c.Name, P: h.g.pred(c)})
				}
			case k.Textual():
				if h.rng.Intn(2) == 0 {
					chain = append(chain, filterStep{Op: "withstring", Col: c.Name, P: Pred{Op: "len>", I: int64(h.rng.Intn(3))}})
				} else {
					chain = append(chain, filterStep{Op: "withstring", Col: c.Name, P: Pred{Op: "strpre", S: []string{"", "a", "b", "e"}[h.rng.Intn(4)]}})
				}
			case k == KBool:
				if h.rng.Intn(2) == 0 {
					chain = append(chain, filterStep{Op: "withint", Col: c.Name, P: Pred{Op: "int<", I: 5}}) // wrong type: selects nothing
				} else {
					chain = append(chain, filterStep{Op: "with", Names: []string{c.Name}})
				}
			default: // records
				if h.rng.Intn(2) == 0 {
					chain = append(chain, filterStep{Op: "withstring", Col: c.Name, P: Pred{Op: "len>", I: int64(4 + h.rng.Intn(6))}}) // filters on the encoded record
				} else {
					chain = append(chain, filterStep{Op: "with", Names: []string{c.Name}})
				}
			}
		}
	}
	return chain
}

func anyToVal(k Kind, v any) (Val, bool) {
	switch {
	case k.Numeric():
		b, ok := nums[k].fromAny(v)
		return Val{B: b}, ok
	case k == KBool:
		b, ok := v.(bool)
		return Val{B: 1}, ok && b
	case k.IsRecord():
		r, ok := v.(*Rec)
		if !ok {
			return Val{}, false
		}
		return Val{S: recToString(r)}, true
	}
	s, ok := v.(string)
	return Val{S: s}, ok
}

func applyChain(txn *column.Txn, m *Model, chain []filterStep) {
	for _, f := range chain {
		f := f
		switch f.Op {
		case "with":
			txn.With(f.Names...)
		case "without":
			txn.Without(f.Names...)
		case "union":
			txn.Union(f.Names...)
		case "withunion":
			txn.WithUnion(f.Names...)
		case "withvalue":
			k := m.col(f.Col).Kind
			txn.WithValue(f.Col, func(v any) bool {
				val, ok := anyToVal(k, v)
				return ok && f.P.onVal(k, val)
			})
		case "withint":
			txn.WithInt(f.Col, func(v int64) bool { return f.P.onVal(KInt64, Val{B: uint64(v)}) })
		case "withuint":
			txn.WithUint(f.Col, func(v uint64) bool { return f.P.onVal(KUint64, Val{B: v}) })
		case "withfloat":
			txn.WithFloat(f.Col, func(v float64) bool { return f.P.onVal(KFloat64, Val{B: math.Float64bits(v)}) })
		case "withstring":
			txn.WithString(f.Col, func(v string) bool { return f.P.onVal(KString, Val{S: v}) })
		}
	}
}

// evalChain evaluates the chain as set algebra over the dumped (actual) state.
func evalChain(st *State, sv schemaView, chain []filterStep) map[uint32]bool {
	sel := map[uint32]bool{}
	for _, r := range st.Rows {
		sel[r] = true
	}
	setOf := func(name string) (map[uint32]bool, bool) {
		for _, ix := range sv.Idx {
			if ix.Name == name {
				s := map[uint32]bool{}
				for _, r := range st.Idx[name] {
					s[r] = true
				}
				return s, true
			}
		}
		if cells, ok := st.Cells[name]; ok {
			s := map[uint32]bool{}
			for r := range cells {
				s[r] = true
			}
			return s, true
		}
		return nil, false
	}
	kindOf := func(name string) (Kind, bool) {
		for _, c := range sv.Cols {
			if c.Name == name {
				return c.Kind, true
			}
		}
		return 0, false
	}
	setup := false
	for _, f := range chain {
		switch f.Op {
		case "with":
			for _, n := range f.Names {
				s, ok := setOf(n)
				for r := range sel {
					if !ok || !s[r] {
						delete(sel, r)
					}
				}
			}
		case "without":
			for _, n := range f.Names {
				if s, ok := setOf(n); ok {
					for r := range s {
						delete(sel, r)
					}
				}
			}
		case "union", "withunion":
			if f.Op == "union" || !setup || len(f.Names) == 1 {
				first := !setup
				for _, n := range f.Names {
					if s, ok := setOf(n); ok {
						if first {
							for r := range sel {
								if !s[r] {
									delete(sel, r)
								}
							}
						} else {
							for r := range s {
								sel[r] = true
							}
						}
					}
					first = false
				}
			} else {
				u := map[uint32]bool{}
				for _, n := range f.Names {
					if s, ok := setOf(n); ok {
						for r := range s {
							u[r] = true
						}
					}
				}
				for r := range sel {
					if !u[r] {
						delete(sel, r)
					}
				}
			}
		default:
			k, ok := kindOf(f.Col)
			typeOK := ok
			switch f.Op {
			case "withint", "withuint", "withfloat":
				typeOK = ok && k.Numeric()
			case "withstring":
				typeOK = ok && (k.Textual() || k.IsRecord()) // a record column is a string column of encoded records
			}
			for r := range sel {
				keep := false
				if typeOK {
					if v, has := st.Cells[f.Col][r]; has {
						switch f.Op {
						case "withvalue":
							keep = f.P.onVal(k, v)
						case "withint":
							keep = f.P.onVal(KInt64, Val{B: uint64(valInt64(k, v))})
						case "withuint":
							keep = f.P.onVal(KUint64, Val{B: valUint64(k, v)})
						case "withfloat":
							keep = f.P.onVal(KFloat64, Val{B: math.Float64bits(valFloat(k, v))})
						case "withstring":
							keep = f.P.onVal(KString, v)
						}
					}
				}
				if !keep {
					delete(sel, r)
				}
			}
		}
		setup = true
	}
	// the selection can only contain live rows
	live := map[uint32]bool{}
	for _, r := range st.Rows {
		live[r] = true
	}
	for r := range sel {
		if !live[r] {
			delete(sel, r)
		}
	}
	return sel
}

// ascendFiltered: Ascend under a filter chain visits exactly the selected rows that hold a
// value, each once, in non-decreasing order of the values read.
func (h *history) ascendFiltered(chain []filterStep, st *State, sv schemaView) {
	m := h.wd.M
	sx := m.Sorted[h.rng.Intn(len(m.Sorted))]
	col := m.col(sx.Col)
	var rows []uint32
	var vals []string
	h.wd.P.Query(func(txn *column.Txn) error {
		applyChain(txn, m, chain)
		txn.Ascend(sx.Name, func(idx uint32) {
			rows = append(rows, idx)
			v, ok := readCell(txn, column.Row{}, col, true)
			if !ok {
				vals = append(vals, "\x00<absent>")
			} else {
				vals = append(vals, v.S)
			}
		})
		return nil
	})
	desc := ""
	for _, f := range chain {
		desc += f.String() + "."
	}
	sel := evalChain(st, sv, chain)
	var want []uint32
	for _, r := range st.Rows {
		if _, ok := st.Cells[sx.Col][r]; ok && sel[r] {
			want = append(want, r)
		}
	}
	got := append([]uint32(nil), rows...)
	sort.Slice(got, func(i, j int) bool { return got[i] < got[j] })
	h.stats["ascend_filtered"]++
	h.stats["ascend_rows"] += int64(len(rows))
	for i := 1; i < len(got); i++ {
		if got[i] == got[i-1] {
			h.violate("sorted", fmt.Sprintf("%sAscend(%s): row %d visited twice", desc, sx.Name, got[i]), "")
			return
		}
	}
	if !sameRows(got, want) {
		h.violate("sorted", fmt.Sprintf("%sAscend(%s): %s", desc, sx.Name, rowsDiff(got, want)), "")
		return
	}
	for i := 1; i < len(vals); i++ {
		if vals[i] < vals[i-1] {
			h.violate("sorted", fmt.Sprintf("%sAscend(%s): row %d (%q) visited after row %d (%q)", desc, sx.Name, rows[i], vals[i], rows[i-1], vals[i-1]), "")
			return
		}
	}
}

func (h *history) filterCheck() {
	m := h.wd.M
	sv := m.view(h.wd.Keys)
	st := h.before
	chain := h.genChain()
	var numCols []ColSpec
	for _, c := range m.Cols {
		if c.Kind.Numeric() && c.Name != "expire" && !wideCol(c.Name) { // (sums of the wide columns are not exact in float64)
			numCols = append(numCols, c)
		}
	}
	var aggCol *ColSpec
	if len(numCols) > 0 {
		aggCol = &numCols[h.rng.Intn(len(numCols))]
	}
	var rows []uint32
	var count int
	var agg, agg2 aggRes
	var rangeErr string
	countAfter, rowsAfter := -1, 0
	var aggCol2 *ColSpec
	if len(numCols) > 1 {
		aggCol2 = &numCols[h.rng.Intn(len(numCols))]
	}
	h.wd.P.Query(func(txn *column.Txn) error {
		applyChain(txn, m, chain)
		count = txn.Count()
		last := int64(-1)
		txn.Range(func(idx uint32) {
			if int64(idx) <= last && rangeErr == "" {
				rangeErr = fmt.Sprintf("Range visited %d after %d", idx, last)
			}
			if txn.Index() != idx && rangeErr == "" {
				rangeErr = fmt.Sprintf("Range callback idx=%d, cursor=%d", idx, txn.Index())
			}
			last = int64(idx)
			rows = append(rows, idx)
		})
		if aggCol != nil {
			agg = nums[aggCol.Kind].agg(txn, aggCol.Name)
			// the aggregates must leave the selection alone: Count, Range and an aggregate over
			// another column on the same transaction afterwards
			countAfter = txn.Count()
			txn.Range(func(idx uint32) { rowsAfter++ })
			if aggCol2 != nil {
				agg2 = nums[aggCol2.Kind].agg(txn, aggCol2.Name)
			}
		}
		return nil
	})
	if h.cfg.Oracles["sorted"] && len(m.Sorted) > 0 {
		h.ascendFiltered(chain, st, sv)
	}
	if !h.cfg.Oracles["filter"] {
		return
	}
	desc := ""
	for _, f := range chain {
		desc += f.String() + "."
	}
	want := evalChain(st, sv, chain)
	wantRows := make([]uint32, 0, len(want))
	for r := range want {
		wantRows = append(wantRows, r)
	}
	sort.Slice(wantRows, func(i, j int) bool { return wantRows[i] < wantRows[j] })
	h.stats["filter_chains"]++
	if len(wantRows) > 0 && len(wantRows) < len(st.Rows) {
		h.stats["filter_chains_selective"]++
	}
	h.logf("filter %s -> %d rows", desc, len(rows))
	if rangeErr != "" {
		h.violate("filter", desc+"Range: "+rangeErr, "")
		return
	}
	if !sameRows(rows, wantRows) {
		h.violate("filter", fmt.Sprintf("%sRange: %s", desc, rowsDiff(rows, wantRows)), "")
		return
	}
	if count != len(wantRows) {
		h.violate("filter", fmt.Sprintf("%sCount()=%d, set algebra gives %d rows", desc, count, len(wantRows)), "")
		return
	}
	if aggCol == nil {
		return
	}
	var vals []uint64
	for _, r := range wantRows {
		if v, ok := st.Cells[aggCol.Name][r]; ok {
			vals = append(vals, v.B)
		}
	}
	k := aggCol.Kind
	h.stats["aggregates"]++
	if len(vals) > 0 && len(vals) < len(wantRows) {
		h.stats["aggregates_over_rows_lacking_value"]++
	}
	show := func(b uint64) string { return Val{B: b}.show(k) }
	if len(vals) == 0 {
		if agg.Sum != 0 || agg.MinOK || agg.MaxOK || !math.IsNaN(agg.Avg) {
			h.violate("aggregate", fmt.Sprintf("%s%s: no selected row holds a value but Sum=%s Avg=%v Min=(%s,%v) Max=(%s,%v)", desc, aggCol.Name, show(agg.Sum), agg.Avg, show(agg.Min), agg.MinOK, show(agg.Max), agg.MaxOK), "")
		}
		return
	}
	sum, avg, mn, mx := nums[k].sumBits(vals)
	if !valEqual(k, Val{B: agg.Sum}, Val{B: sum, Arith: true}) {
		h.violate("aggregate", fmt.Sprintf("%s%s.Sum()=%s, the %d selected values sum to %s", desc, aggCol.Name, show(agg.Sum), len(vals), show(sum)), "")
		return
	}
	if agg.Avg != avg && !(math.IsNaN(agg.Avg) && math.IsNaN(avg)) {
		h.violate("aggregate", fmt.Sprintf("%s%s.Avg()=%v, the %d selected values average %v", desc, aggCol.Name, agg.Avg, len(vals), avg), "")
		return
	}
	if !agg.MinOK || !agg.MaxOK || !valEqual(k, Val{B: agg.Min}, Val{B: mn, Arith: true}) || !valEqual(k, Val{B: agg.Max}, Val{B: mx, Arith: true}) {
		h.violate("aggregate", fmt.Sprintf("%s%s: Min=(%s,%v) Max=(%s,%v), selected values have min %s max %s", desc, aggCol.Name, show(agg.Min), agg.MinOK, show(agg.Max), agg.MaxOK, show(mn), show(mx)), "")
		return
	}
	h.afterAggregates(desc, aggCol, aggCol2, agg2, countAfter, rowsAfter, wantRows, st)
}

// afterAggregates: Sum/Avg/Min/Max must not change the selection of the transaction.
func (h *history) afterAggregates(desc string, aggCol, aggCol2 *ColSpec, agg2 aggRes, countAfter, rowsAfter int, wantRows []uint32, st *State) {
	if countAfter >= 0 && (countAfter != len(wantRows) || rowsAfter != len(wantRows)) {
		h.violate("aggregate", fmt.Sprintf("%safter Sum/Avg/Min/Max over %s the same transaction has Count()=%d and Range visits %d rows, the selection holds %d rows", desc, aggCol.Name, countAfter, rowsAfter, len(wantRows)), "")
		return
	}
	if aggCol2 == nil {
		return
	}
	var vals []uint64
	for _, r := range wantRows {
		if v, ok := st.Cells[aggCol2.Name][r]; ok {
			vals = append(vals, v.B)
		}
	}
	k := aggCol2.Kind
	if len(vals) == 0 {
		if agg2.MinOK || agg2.MaxOK || agg2.Sum != 0 {
			h.violate("aggregate", fmt.Sprintf("%ssecond aggregate over %s (after %s) on the same transaction: no selected row holds a value but Sum=%s Min ok=%v", desc, aggCol2.Name, aggCol.Name, Val{B: agg2.Sum}.show(k), agg2.MinOK), "")
		}
		return
	}
	sum, _, mn, mx := nums[k].sumBits(vals)
	if !valEqual(k, Val{B: agg2.Sum}, Val{B: sum, Arith: true}) || !agg2.MinOK || !agg2.MaxOK || !valEqual(k, Val{B: agg2.Min}, Val{B: mn, Arith: true}) || !valEqual(k, Val{B: agg2.Max}, Val{B: mx, Arith: true}) {
		h.violate("aggregate", fmt.Sprintf("%ssecond aggregate over %s (after %s) on the same transaction: Sum=%s Min=%s Max=%s, the %d selected values give Sum=%s Min=%s Max=%s", desc, aggCol2.Name, aggCol.Name,
			Val{B: agg2.Sum}.show(k), Val{B: agg2.Min}.show(k), Val{B: agg2.Max}.show(k), len(vals), Val{B: sum}.show(k), Val{B: mn}.show(k), Val{B: mx}.show(k)), "")
	}
}
