package main

import (
	"encoding/json"
	"fmt"
	"os"
	"strings"
)

func main() {
	if len(os.Args) < 2 {
		fmt.Fprintln(os.Stderr, "usage: vcheck drive <Cxx> quick|thorough | replay <Cxx> <file> | worker ...")
		os.Exit(3)
	}
	switch os.Args[1] {
	case "drive":
		if len(os.Args) < 4 {
			os.Exit(3)
		}
		os.Exit(drive(os.Args[2], os.Args[3]))
	case "worker":
		os.Exit(workerMain(os.Args[2:]))
	case "replay":
		if len(os.Args) < 4 {
			os.Exit(3)
		}
		os.Exit(replayMain(os.Args[2], os.Args[3]))
	case "needs-race":
		if p, ok := registry[os.Args[2]]; ok {
			for _, tier := range []string{"quick", "thorough"} {
				for _, pl := range p.Plan(tier) {
					if pl.Race {
						os.Exit(0)
					}
				}
			}
		}
		os.Exit(1)
	case "list":
		for id := range registry {
			fmt.Println(id)
		}
	default:
		os.Exit(3)
	}
}

// replayMain re-executes the case recorded in a replay file, in-process.
func replayMain(propID, path string) int {
	p, ok := registry[propID]
	if !ok {
		fmt.Fprintln(os.Stderr, "unknown property", propID)
		return 3
	}
	data, err := os.ReadFile(path)
	if err != nil {
		fmt.Fprintln(os.Stderr, err)
		return 3
	}
	var rep struct {
		Tier   string          `json:"tier"`
		Seed   int64           `json:"seed"`
		Idx    int             `json:"idx"`
		Case   string          `json:"case"`
		Replay json.RawMessage `json:"replay"`
	}
	if err := json.Unmarshal(data, &rep); err != nil {
		fmt.Fprintln(os.Stderr, err)
		return 3
	}
	var inner struct {
		Phase int  `json:"phase"`
		Idx   *int `json:"idx"`
	}
	json.Unmarshal(rep.Replay, &inner)
	idx := rep.Idx
	if inner.Idx != nil {
		idx = *inner.Idx
	}
	w := &W{Prop: propID, Tier: rep.Tier, Seed: rep.Seed, NSlices: 1, hashes: map[uint64]struct{}{}, maxSamp: 3, out: os.DevNull}
	w.Res.Stats = map[string]int64{}
	if p.Init != nil {
		p.Init(w, inner.Phase)
	}
	fmt.Printf("replaying %s case %q (phase %d idx %d, seed %d, tier %s)\n", propID, rep.Case, inner.Phase, idx, rep.Seed, rep.Tier)
	p.Run(w, inner.Phase, idx)
	if p.Fini != nil {
		p.Fini(w, inner.Phase)
	}
	if len(w.Res.Violations) == 0 {
		fmt.Println("replay: no violation reproduced (concurrent cases replay the workload, not the exact schedule)")
		return 0
	}
	for _, v := range w.Res.Violations {
		kf := ""
		if v.KF != "" {
			kf = " [signature " + v.KF + "]"
		}
		fmt.Printf("VIOLATION property=%s replay=%s%s\n  case=%s\n  %s\n", propID, path, kf, v.Case, strings.ReplaceAll(v.Detail, "\n", "\n  "))
	}
	return 1
}
