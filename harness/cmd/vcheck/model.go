package main

// model.go — the reference model M: plain Go maps, written from the property statements.

import (
	"fmt"
	"sort"
)

type IndexSpec struct {
	Name string `json:"name"`
	Col  string `json:"col"`
	P    Pred   `json:"p"`
}

type SortSpec struct {
	Name string `json:"name"`
	Col  string `json:"col"`
}

type TrigSpec struct {
	Name string `json:"name"`
	Col  string `json:"col"`
}

type Model struct {
	Cols   []ColSpec
	KeyCol string
	Live   map[uint32]bool
	Cells  map[string]map[uint32]Val
	Idx    []IndexSpec
	Sorted []SortSpec
	Trig   []TrigSpec
	Focus  map[uint32]bool // dense layouts: the rows whose values are dumped (nil = all)
}

func newModel() *Model {
	m := &Model{Live: map[uint32]bool{}, Cells: map[string]map[uint32]Val{}}
	m.addCol(ColSpec{"expire", KInt64}) // built-in
	return m
}

func (m *Model) addCol(c ColSpec) {
	m.Cols = append(m.Cols, c)
	m.Cells[c.Name] = map[uint32]Val{}
	if c.Kind == KKey {
		m.KeyCol = c.Name
	}
}

func (m *Model) col(name string) ColSpec {
	for _, c := range m.Cols {
		if c.Name == name {
			return c
		}
	}
	panic("model: no column " + name)
}

func (m *Model) hasCol(name string) bool {
	for _, c := range m.Cols {
		if c.Name == name {
			return true
		}
	}
	return false
}

func (m *Model) Clone() *Model {
	n := &Model{KeyCol: m.KeyCol, Live: make(map[uint32]bool, len(m.Live)), Cells: make(map[string]map[uint32]Val, len(m.Cells)), Focus: m.Focus}
	n.Cols = append(n.Cols, m.Cols...)
	n.Idx = append(n.Idx, m.Idx...)
	n.Sorted = append(n.Sorted, m.Sorted...)
	n.Trig = append(n.Trig, m.Trig...)
	for k := range m.Live {
		n.Live[k] = true
	}
	for c, cells := range m.Cells {
		cp := make(map[uint32]Val, len(cells))
		for k, v := range cells {
			cp[k] = v
		}
		n.Cells[c] = cp
	}
	return n
}

func (m *Model) liveSorted() []uint32 {
	out := make([]uint32, 0, len(m.Live))
	for k := range m.Live {
		out = append(out, k)
	}
	sort.Slice(out, func(i, j int) bool { return out[i] < out[j] })
	return out
}

// keyTable returns key -> offsets of live rows holding it.
func (m *Model) keyTable() map[string][]uint32 {
	t := map[string][]uint32{}
	if m.KeyCol == "" {
		return t
	}
	for off, v := range m.Cells[m.KeyCol] {
		if m.Live[off] {
			t[v.S] = append(t[v.S], off)
		}
	}
	return t
}

func (m *Model) keyOffset(key string) (uint32, bool) {
	if m.KeyCol == "" {
		return 0, false
	}
	best, found := uint32(0), false
	for off, v := range m.Cells[m.KeyCol] {
		if v.S == key && m.Live[off] {
			if !found || off < best {
				best, found = off, true
			}
		}
	}
	return best, found
}

// ---------------------------------------------------------------------------------------------
// Operations

// Write is one buffered store or merge on a cell.
type Write struct {
	Col   string `json:"c"`
	Merge bool   `json:"m,omitempty"`
	V     Val    `json:"v"`
	False bool   `json:"f,omitempty"` // bool columns: store false
	Via   int    `json:"via,omitempty"`
}

// Op is one client operation inside a transaction.
type Op struct {
	T       string  `json:"t"`             // ins | at | del | inskey | upskey | qkey | delkey
	Ref     int     `json:"ref,omitempty"` // at/del: >0 means "the row inserted by the (Ref-1)-th op of this transaction"
	Off     uint32  `json:"off,omitempty"`
	Key     string  `json:"key,omitempty"`
	W       []Write `json:"w,omitempty"`
	Fail    bool    `json:"fail,omitempty"`    // the row callback returns an error after buffering its writes
	Swallow bool    `json:"swallow,omitempty"` // the body ignores that error and carries on (only in transactions that end in an error)
	// delall: the filter chain applied before Txn.DeleteAll; the executor appends one "del" per row Range visited under it
	Chain []filterStep `json:"chain,omitempty"`

	// filled in by the executor
	Done    bool   `json:"done,omitempty"`   // the operation was issued
	GotOff  uint32 `json:"gotoff,omitempty"` // offset the operation worked on
	HasOff  bool   `json:"hasoff,omitempty"`
	Err     string `json:"err,omitempty"`     // error the operation returned
	Created bool   `json:"created,omitempty"` // upskey/inskey: the operation created a row
	NoOpW   []bool `json:"-"`                 // writes that the API defines as no-ops (SetKey to an existing key)
}

type TxnSpec struct {
	Ops   []Op `json:"ops"`
	Abort bool `json:"abort,omitempty"` // the body returns an error after all operations
}

func (o Op) String() string {
	s := o.T
	switch o.T {
	case "at", "del":
		if o.Ref > 0 {
			s += fmt.Sprintf("(new#%d)", o.Ref-1)
		} else {
			s += fmt.Sprintf("(%d)", o.Off)
		}
	case "inskey", "upskey", "qkey", "delkey":
		s += fmt.Sprintf("(%q)", o.Key)
		if len(o.Chain) > 0 {
			s += " behind "
			for _, f := range o.Chain {
				s += f.String() + "."
			}
		}
	case "delall":
		s += "("
		for _, f := range o.Chain {
			s += f.String() + "."
		}
		s += "DeleteAll)"
	}
	for _, w := range o.W {
		op := "="
		if w.Merge {
			op = "+="
		}
		v := w.V.S
		if v == "" {
			v = fmt.Sprintf("%#x", w.V.B)
		} else if len(v) > 12 {
			v = fmt.Sprintf("%q..%dB", v[:12], len(v))
		} else {
			v = fmt.Sprintf("%q", v)
		}
		if w.False {
			v = "false"
		}
		s += fmt.Sprintf(" %s%s%s", w.Col, op, v)
	}
	if o.Fail {
		s += " FAIL"
	}
	if o.Swallow {
		s += "(ignored)"
	}
	if o.HasOff {
		s += fmt.Sprintf(" ->row %d", o.GotOff)
	}
	if o.Err != "" {
		s += " ->err"
	}
	return s
}

func (t TxnSpec) String() string {
	s := "txn{"
	for i, o := range t.Ops {
		if i > 0 {
			s += "; "
		}
		s += o.String()
	}
	if t.Abort {
		s += "; ABORT"
	}
	return s + "}"
}

// TrigEvent is one expected/observed trigger callback.
type TrigEvent struct {
	Off    uint32
	Delete bool
	V      Val
}

func (m *Model) applyWrite(off uint32, w Write, noop bool) (Val, bool) {
	if noop {
		return Val{}, false
	}
	c := m.col(w.Col)
	cells := m.Cells[w.Col]
	if c.Kind == KBool {
		if w.False {
			delete(cells, off)
			return Val{}, false
		}
		cells[off] = Val{B: 1}
		return Val{B: 1}, true
	}
	if w.Merge {
		cur, has := cells[off]
		nv := mergeVal(c.Kind, cur, has, w.V)
		nv.Arith = c.Kind.Float()
		cells[off] = nv
		return nv, true
	}
	cells[off] = w.V
	return w.V, true
}

// Apply applies the executed operations of a committed transaction; it returns, per watched
// column, the trigger events the commit must produce.
func (m *Model) Apply(ops []Op) map[string][]TrigEvent {
	ev := map[string][]TrigEvent{}
	watched := func(col string) bool {
		for _, t := range m.Trig {
			if t.Col == col {
				return true
			}
		}
		return false
	}
	for i := range ops {
		o := &ops[i]
		if !o.Done || !o.HasOff {
			continue
		}
		off := o.GotOff
		switch o.T {
		case "del", "delkey":
			if o.Err != "" {
				continue
			}
			if m.Live[off] {
				delete(m.Live, off)
				for _, c := range m.Cols {
					delete(m.Cells[c.Name], off)
				}
				seen := map[string]bool{}
				for _, t := range m.Trig {
					if !seen[t.Col] { // events are kept per watched column, not per trigger
						seen[t.Col] = true
						ev[t.Col] = append(ev[t.Col], TrigEvent{Off: off, Delete: true})
					}
				}
			}
		case "ins", "inskey", "upskey", "at", "qkey":
			if o.T == "ins" || o.Created {
				m.Live[off] = true
				if m.Focus != nil {
					m.Focus[off] = true
				}
			}
			for wi, w := range o.W {
				noop := wi < len(o.NoOpW) && o.NoOpW[wi]
				nv, stored := m.applyWrite(off, w, noop)
				if stored && watched(w.Col) {
					ev[w.Col] = append(ev[w.Col], TrigEvent{Off: off, V: nv})
				}
				if !stored && !noop && watched(w.Col) && m.col(w.Col).Kind == KBool {
					ev[w.Col] = append(ev[w.Col], TrigEvent{Off: off, Delete: true})
				}
			}
			if o.Created && m.KeyCol != "" {
				m.Cells[m.KeyCol][off] = Val{S: o.Key}
				if watched(m.KeyCol) {
					ev[m.KeyCol] = append(ev[m.KeyCol], TrigEvent{Off: off, V: Val{S: o.Key}})
				}
			}
		}
	}
	return ev
}

// changedBlocks returns the blocks in which the executed operations buffered a change.
func changedBlocks(ops []Op) map[uint32]bool {
	out := map[uint32]bool{}
	for _, o := range ops {
		if !o.Done || !o.HasOff {
			continue
		}
		switch o.T {
		case "del", "delkey":
			if o.Err == "" {
				out[o.GotOff>>14] = true
			}
		case "ins":
			out[o.GotOff>>14] = true
		default:
			if o.Created {
				out[o.GotOff>>14] = true
			}
			for wi := range o.W {
				if wi < len(o.NoOpW) && o.NoOpW[wi] {
					continue
				}
				out[o.GotOff>>14] = true
			}
		}
	}
	return out
}
