package main

// e3_common.go — E3 parallel stress: shared infrastructure (hook with micro-delays and overlap
// counters, race-detector log parsing and de-duplication).

import (
	"fmt"
	"math/rand"
	"os"
	"path/filepath"
	"regexp"
	"runtime"
	"sort"
	"strconv"
	"strings"
	"sync"
	"sync/atomic"
	"time"

	"github.com/kelindar/column"
)

// stressHook widens interleavings with micro-delays at the instrumentation points and counts,
// per block, how many commits are currently between "about to latch" and "unlatched".
type stressHook struct {
	inCommit  [8]int64 // per block (mod 8)
	snapshots int64    // snapshots currently in progress
	commits   int64
	delayPct  int
	seed      int64
	ctr       uint64
	target    *column.Collection
}

func (h *stressHook) install(c *column.Collection) {
	h.target = c
	fn := h.fn
	column.VerifHook.Store(&fn)
}

func (h *stressHook) remove() { column.VerifHook.Store(nil) }

func (h *stressHook) fn(point string, c *column.Collection, block uint32) {
	if c != h.target {
		return
	}
	switch point {
	case "commit.beforeLatch":
		atomic.AddInt64(&h.inCommit[block&7], 1)
		atomic.AddInt64(&h.commits, 1)
	case "commit.afterUnlatch":
		atomic.AddInt64(&h.inCommit[block&7], -1)
	case "snapshot.recorderOpen":
		atomic.AddInt64(&h.snapshots, 1)
	case "snapshot.beforeCopy":
		atomic.AddInt64(&h.snapshots, -1)
	}
	if h.delayPct > 0 {
		n := atomic.AddUint64(&h.ctr, 1)
		x := (n*0x9E3779B97F4A7C15 + uint64(h.seed)) >> 33
		if int(x%100) < h.delayPct {
			if x%7 == 0 {
				time.Sleep(time.Duration(x%40) * time.Microsecond)
			} else {
				runtime.Gosched()
			}
		}
	}
}

func (h *stressHook) overlapping(block uint32) bool {
	return atomic.LoadInt64(&h.inCommit[block&7]) > 0
}

// parallel runs fns concurrently and waits for all of them.
func parallel(fns ...func()) {
	var wg sync.WaitGroup
	for _, f := range fns {
		wg.Add(1)
		go func(f func()) {
			defer wg.Done()
			f()
		}(f)
	}
	wg.Wait()
}

// withWatchdog runs one bounded workload round; if it does not finish within the (generous)
// limit the goroutines are dumped and classified: every workload goroutine blocked in a
// sync/channel wait = the round can never complete (deadlock) = violation; anything else =
// inconclusive. Either way this worker process cannot continue: it exits with status 77 and the
// parent restarts a worker behind this case.
func withWatchdog(w *W, idx int, caseID string, limit time.Duration, fn func()) {
	if v := os.Getenv("VERIF_WATCHDOG_S"); v != "" { // self-test only: a shorter limit
		if n, err := strconv.Atoi(v); err == nil {
			limit = time.Duration(n) * time.Second
		}
	}
	done := make(chan struct{})
	go func() {
		defer close(done)
		fn()
	}()
	select {
	case <-done:
		return
	case <-time.After(limit):
	}
	buf := make([]byte, 8<<20)
	buf = buf[:runtime.Stack(buf, true)]
	blocked, active, sample := classifyGoroutines(string(buf))
	// a goroutine inside the library that has been waiting for a lock for at least half of the limit while
	// others keep running will never get it either (Go's RWMutex does not starve writers; no wait in these
	// workloads is longer than a commit): e.g. a leaked read latch that only the growing commit runs into
	if starved, ssample := longBlocked(string(buf), int(limit/time.Minute)/2); starved > 0 && !(blocked > 0 && active == 0) {
		w.Violate(idx, caseID, fmt.Sprintf("[deadlock] the round did not complete within %s: %d goroutine(s) inside the library have been blocked in a lock wait for minutes while %d others keep running:\n%s", limit, starved, active, ssample), "",
			map[string]any{"idx": idx, "race": true, "engine": "E3", "kind": "hang"})
		w.flush(false)
		os.Exit(77)
	}
	if len(buf) > 256<<10 {
		buf = buf[:256<<10]
	}
	fmt.Fprintf(os.Stderr, "watchdog: %s did not complete within %s; goroutines:\n%s\n", caseID, limit, buf) // worker log, for diagnosis
	if blocked > 0 && active == 0 {
		w.Violate(idx, caseID, fmt.Sprintf("[deadlock] the round did not complete within %s and all %d workload goroutines are blocked in sync/channel waits:\n%s", limit, blocked, sample), "",
			map[string]any{"idx": idx, "race": true, "engine": "E3", "kind": "hang"})
	} else {
		w.Inconclusive(caseID, fmt.Sprintf("round exceeded %s with %d blocked and %d active workload goroutines", limit, blocked, active))
	}
	w.flush(false)
	os.Exit(77)
}

// classifyGoroutines counts workload goroutines (those with library or harness workload frames,
// except the watchdog itself) that are blocked vs runnable/running/sleeping.
func classifyGoroutines(dump string) (blocked, active int, sample string) {
	for _, g := range strings.Split(dump, "\n\n") {
		if !strings.HasPrefix(g, "goroutine ") {
			continue
		}
		if !strings.Contains(g, "kelindar/column") || strings.Contains(g, "main.withWatchdog(") {
			continue // not a workload goroutine / the watchdog itself (the round's own goroutine runs withWatchdog.func1 and counts)
		}
		head := g
		if j := strings.Index(g, "\n"); j >= 0 {
			head = g[:j]
		}
		switch {
		case strings.Contains(head, "[running"), strings.Contains(head, "[runnable"), strings.Contains(head, "[syscall"), strings.Contains(head, "[sleep"), strings.Contains(head, "[IO wait"):
			active++
		case strings.Contains(g, "(*Collection).vacuum"):
			// the cleanup goroutine waits on its ticker by design
		default:
			blocked++
			if len(sample) < 3000 {
				lines := strings.Split(g, "\n")
				if len(lines) > 12 {
					lines = lines[:12]
				}
				sample += strings.Join(lines, "\n") + "\n\n"
			}
		}
	}
	return
}

func rngFor(seed int64, parts ...int) *rand.Rand {
	s := seed
	for _, p := range parts {
		s = s*1000003 + int64(p)
	}
	return rand.New(rand.NewSource(s))
}

// ---------------------------------------------------------------------------------------------
// Race detector logs

type raceReport struct {
	Text   string
	Pair   string    // de-duplication key: innermost library frames of the two accesses
	Kinds  [2]string // "Write", "Read", "Previous write", ...
	Stacks [2][]string
}

var accessRe = regexp.MustCompile(`^(Write|Read|Previous write|Previous read|Atomic write|Atomic read|Previous atomic write|Previous atomic read) at 0x[0-9a-f]+ by `)

func parseRaceLog(text string) []raceReport {
	var out []raceReport
	for _, blk := range strings.Split(text, "==================") {
		if !strings.Contains(blk, "WARNING: DATA RACE") {
			continue
		}
		r := raceReport{Text: strings.TrimSpace(blk)}
		sec := -1
		for _, line := range strings.Split(blk, "\n") {
			if m := accessRe.FindStringSubmatch(line); m != nil {
				sec++
				if sec < 2 {
					r.Kinds[sec] = m[1]
				}
				continue
			}
			if strings.HasPrefix(line, "Goroutine ") {
				sec = 99
			}
			if sec >= 0 && sec < 2 && strings.HasPrefix(line, "  ") && !strings.HasPrefix(line, "      ") {
				fn := strings.TrimSpace(line)
				if i := strings.Index(fn, "("); i > 0 && strings.HasSuffix(fn, ")") && !strings.Contains(fn[i:], ".") {
					fn = fn[:strings.LastIndex(fn, "(")]
				}
				r.Stacks[sec] = append(r.Stacks[sec], fn)
			}
		}
		inner := func(st []string) string {
			for _, f := range st {
				if strings.Contains(f, "kelindar/column") {
					return strings.TrimPrefix(f, "github.com/kelindar/column")
				}
			}
			if len(st) > 0 {
				return st[0]
			}
			return "?"
		}
		a, b := inner(r.Stacks[0]), inner(r.Stacks[1])
		if a > b {
			a, b = b, a
		}
		r.Pair = a + " <-> " + b
		out = append(out, r)
	}
	return out
}

func stackHas(st []string, subs ...string) bool {
	for _, f := range st {
		for _, s := range subs {
			if strings.Contains(f, s) {
				return true
			}
		}
	}
	return false
}

// classifyRace maps a report to a known-finding key when its signature matches exactly.
func classifyRace(r raceReport) string {
	for w := 0; w < 2; w++ {
		o := 1 - w
		isWrite := strings.Contains(strings.ToLower(r.Kinds[w]), "write")
		isRead := strings.Contains(strings.ToLower(r.Kinds[o]), "read")
		if !isWrite || !isRead {
			continue
		}
		// KF-RACE-GROW: a commit grows the column's block list (commitCapacity -> Grow) while a
		// lock-free reader loads from the same list
		if stackHas(r.Stacks[w], "commitCapacity") && stackHas(r.Stacks[w], ".Grow") &&
			stackHas(r.Stacks[o], ").load", "LoadString", "LoadFloat64", "LoadInt64", "LoadUint64", ".Value", ".Contains", "FilterString", "filterNumbers", ".Sum", ".Min", ".Max", ".Avg", "readNumber", "chunkAt") &&
			!stackHas(r.Stacks[o], "commitCapacity") {
			return "KF-RACE-GROW"
		}
	}
	return ""
}

// collectRaces is the parent-side post-processing: reads every race log of the run, de-duplicates
// by function pair, and turns each distinct pair into a violation (or a known finding).
func collectRaces(d *Driver) {
	seen := map[string]int{}
	first := map[string]raceReport{}
	total := 0
	for _, base := range d.RaceLogs {
		matches, _ := filepath.Glob(base + "*")
		for _, m := range matches {
			data, err := os.ReadFile(m)
			if err != nil {
				continue
			}
			for _, r := range parseRaceLog(string(data)) {
				total++
				if seen[r.Pair] == 0 {
					first[r.Pair] = r
				}
				seen[r.Pair]++
			}
		}
	}
	d.Merged.Stats["race_reports_total"] += int64(total)
	d.Merged.Stats["race_report_distinct_pairs"] += int64(len(seen))
	pairs := make([]string, 0, len(seen))
	for p := range seen {
		pairs = append(pairs, p)
	}
	sort.Strings(pairs)
	for _, p := range pairs {
		r := first[p]
		text := r.Text
		if len(text) > 3500 {
			text = text[:3500] + "\n..."
		}
		kf := classifyRace(r)
		d.Merged.Violations = append(d.Merged.Violations, Violation{Case: "race:" + p, Idx: -1, KF: kf,
			Detail: fmt.Sprintf("DATA RACE (%d reports) %s\n%s", seen[p], p, text), Replay: mustJSON(map[string]any{"phase": 0, "idx": 0, "race": true, "pair": p})})
		d.Merged.Notes = append(d.Merged.Notes, fmt.Sprintf("race pair %s: %d reports, classified %q", p, seen[p], kf))
	}
}

var waitMinutes = regexp.MustCompile(`^goroutine \d+ \[(sync\.[A-Za-z.]+|semacquire), (\d+) minutes\]`)

// longBlocked counts goroutines with library frames that the runtime reports as blocked in a
// sync wait for at least minMinutes (the runtime prints the wait time from one minute on).
func longBlocked(dump string, minMinutes int) (n int, sample string) {
	if minMinutes < 1 {
		minMinutes = 1
	}
	for _, g := range strings.Split(dump, "\n\n") {
		m := waitMinutes.FindStringSubmatch(g)
		if m == nil || !strings.Contains(g, "kelindar/column") || strings.Contains(g, "(*Collection).vacuum") {
			continue
		}
		if mins, _ := strconv.Atoi(m[2]); mins >= minMinutes {
			n++
			if len(sample) < 2500 {
				lines := strings.Split(g, "\n")
				if len(lines) > 14 {
					lines = lines[:14]
				}
				sample += strings.Join(lines, "\n") + "\n\n"
			}
		}
	}
	return
}
