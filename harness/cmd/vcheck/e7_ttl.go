package main

// e7_ttl.go — E7 TTL monitor (C17): the real vacuum goroutine at 1-20 ms intervals beside
// writers. Safety (rows without TTL / with far deadlines never disappear) needs no clock.
// Bounded liveness is counted in vacuum passes observed at the vacuum.pass hook, not in time.

import (
	"bytes"
	"fmt"
	"sync"
	"sync/atomic"
	"time"

	"github.com/kelindar/column"
	"github.com/kelindar/column/commit"
)

type ttlRow struct {
	off      uint32
	group    string
	deadline int64 // unix nanos, 0 = never
	judged   bool  // false: the clock withheld the verdict (deadline moved too close to the old one)
	mustLive bool
	goneBy   int64 // pass count by which the row must be gone (0 = not armed)
	gone     bool
}

const ttlK = 5 // passes that started after the deadline

func ttlCase(w *W, idx int) {
	intervals := []time.Duration{time.Millisecond, 5 * time.Millisecond, 20 * time.Millisecond}
	interval := intervals[idx%len(intervals)]
	caseID := fmt.Sprintf("E7:ttl:interval=%s:%d", interval, idx)
	w.Begin(idx, caseID)
	rng := rngFor(w.Seed, 70, idx)
	lg := &recLogger{yieldEvery: 2} // a writer that is slow now and then
	c := column.NewCollection(column.Options{Capacity: 1000, Vacuum: interval, Writer: lg})
	defer c.Close()
	c.CreateColumn("m", column.ForInt64())
	c.CreateColumn("s", column.ForString())
	c.CreateColumn("id", column.ForInt64()) // identity of a tracked row: offsets of expired rows are reused by later inserts
	// the replica is fed the stream in emission order, in steps, from the start
	replica := column.NewCollection(column.Options{Capacity: 1000, Vacuum: time.Hour})
	replica.CreateColumn("m", column.ForInt64())
	replica.CreateColumn("s", column.ForString())
	replica.CreateColumn("id", column.ForInt64())
	defer replica.Close()
	feed := func() {
		for _, cm := range lg.take() {
			replica.Replay(cm)
		}
	}
	var passes int64
	hook := func(point string, cc *column.Collection, block uint32) {
		if cc == c && point == "vacuum.pass" {
			atomic.AddInt64(&passes, 1)
		}
	}
	column.VerifHook.Store(&hook)
	defer column.VerifHook.Store(nil)
	fail := func(detail string) {
		w.Violate(idx, caseID, fmt.Sprintf("[interval %s] %s", interval, detail), "", map[string]any{"idx": idx})
	}

	// sparse rows in blocks 1 and 2, created through Replay (public API) so that three blocks exist
	now := time.Now()
	var rows []*ttlRow
	for _, blk := range []uint32{1, 2} {
		row, exp, m, id := commit.NewBuffer(64), commit.NewBuffer(64), commit.NewBuffer(64), commit.NewBuffer(64)
		row.Reset("row")
		exp.Reset("expire")
		m.Reset("m")
		id.Reset("id")
		for i := 0; i < 12; i++ {
			off := blk<<14 + uint32(i*97+1)
			row.PutOperation(commit.Insert, off)
			m.PutInt64(commit.Put, off, 0)
			id.PutInt64(commit.Put, off, int64(off)+1000000)
			r := &ttlRow{off: off}
			switch i % 3 {
			case 0:
				r.group, r.mustLive, r.judged = "no-ttl", true, true
			case 1:
				r.group, r.mustLive, r.judged = "far", true, true
				r.deadline = now.Add(time.Hour).UnixNano()
				exp.PutInt64(commit.Put, off, r.deadline)
			default:
				r.group, r.judged = "short", true
				r.deadline = now.Add(time.Duration(60+rng.Intn(200)) * time.Millisecond).UnixNano()
				exp.PutInt64(commit.Put, off, r.deadline)
			}
			rows = append(rows, r)
		}
		if err := c.Replay(commit.Commit{ID: 1, Chunk: commit.Chunk(blk), Updates: []*commit.Buffer{row, exp, m, id}}); err != nil {
			panic(err)
		}
	}
	// block 0: rows through the documented API
	insert := func(group string, ttl time.Duration) *ttlRow {
		r := &ttlRow{group: group, judged: true}
		off, err := c.Insert(func(row column.Row) error {
			row.SetInt64("m", 0)
			row.SetInt64("id", int64(row.Index())+1000000)
			if ttl != 0 {
				until := row.SetTTL(ttl)
				r.deadline = until.UnixNano()
			}
			return nil
		})
		if err != nil {
			panic(err)
		}
		r.off = off
		rows = append(rows, r)
		return r
	}
	for i := 0; i < 25; i++ {
		insert("no-ttl", 0).mustLive = true
		insert("far", time.Hour).mustLive = true
		insert("short", time.Duration(40+rng.Intn(260))*time.Millisecond)
	}
	// deadline moves
	var moved []*ttlRow
	for i := 0; i < 10; i++ {
		a := insert("far-extended", time.Hour)
		b := insert("far-shortened", time.Hour)
		cRow := insert("short-reset", 400*time.Millisecond)
		moved = append(moved, a, b, cRow)
	}
	for i, r := range moved {
		r := r
		switch r.group {
		case "far-extended":
			c.QueryAt(r.off, func(row column.Row) error { return nil })
			c.Query(func(txn *column.Txn) error {
				return txn.QueryAt(r.off, func(column.Row) error { txn.TTL().Extend(time.Hour); return nil })
			})
			r.deadline += int64(time.Hour)
			r.mustLive = true
		case "far-shortened":
			delta := -(time.Hour - time.Duration(50+rng.Intn(100))*time.Millisecond)
			c.Query(func(txn *column.Txn) error {
				return txn.QueryAt(r.off, func(column.Row) error { txn.TTL().Extend(delta); return nil })
			})
			r.deadline += int64(delta)
		case "short-reset":
			old := r.deadline
			var until time.Time
			c.QueryAt(r.off, func(row column.Row) error {
				if i%2 == 0 {
					until = row.SetTTL(0)
				} else {
					until = row.SetTTL(time.Hour)
				}
				return nil
			})
			returned := time.Now().UnixNano()
			r.deadline = 0
			if !until.IsZero() {
				r.deadline = until.UnixNano()
			}
			r.mustLive = true
			// the clock can only withhold a verdict: judged only if the reset was acknowledged well before the old deadline
			r.judged = returned < old-int64(150*time.Millisecond)
		}
	}
	// the transaction-level accessor: Set stamps now+ttl itself (nothing is returned), TTL reports what is left
	for i := 0; i < 5; i++ {
		r := insert("set-through-txn", 0)
		t0 := time.Now()
		c.Query(func(txn *column.Txn) error {
			return txn.QueryAt(r.off, func(column.Row) error { txn.TTL().Set(time.Hour); return nil })
		})
		t1 := time.Now()
		v, ok := readExpire(c, r.off)
		if !ok || v < t0.Add(time.Hour).UnixNano() || v > t1.Add(time.Hour).UnixNano() {
			fail(fmt.Sprintf("row %d: Txn.TTL().Set(1h) issued between %d and %d stored deadline (%d,%v)", r.off, t0.UnixNano(), t1.UnixNano(), v, ok))
		}
		r.deadline, r.mustLive = v, true
		c.Query(func(txn *column.Txn) error {
			return txn.QueryAt(r.off, func(row column.Row) error {
				left, has := txn.TTL().TTL()
				left2, has2 := row.TTL()
				at, has3 := txn.TTL().ExpiresAt()
				if !has || !has2 || !has3 || left <= 58*time.Minute || left > time.Hour || left2 <= 58*time.Minute || left2 > time.Hour || at.UnixNano() != v {
					fail(fmt.Sprintf("row %d with deadline %d: Txn.TTL().TTL()=(%s,%v) Row.TTL()=(%s,%v) ExpiresAt()=(%d,%v)", r.off, v, left, has, left2, has2, at.UnixNano(), has3))
				}
				return nil
			})
		})
	}
	// a short TTL set and taken back in ONE transaction (on a row without a committed deadline, and inside
	// the insert itself): the row has no TTL
	for i := 0; i < 5; i++ {
		r := insert("set-then-reset-in-one-txn", 0)
		c.QueryAt(r.off, func(row column.Row) error {
			row.SetTTL(time.Duration(40+rng.Intn(60)) * time.Millisecond)
			row.SetTTL(0)
			return nil
		})
		r.deadline, r.mustLive = 0, true
		r2 := &ttlRow{group: "inserted-with-ttl-taken-back", judged: true, mustLive: true}
		off, err := c.Insert(func(row column.Row) error {
			row.SetInt64("m", 0)
			row.SetInt64("id", int64(row.Index())+1000000)
			row.SetTTL(time.Duration(40+rng.Intn(60)) * time.Millisecond)
			row.SetTTL(0)
			return nil
		})
		if err != nil {
			panic(err)
		}
		r2.off = off
		rows = append(rows, r2)
	}
	// Set and Extend in ONE transaction on a row that already has a committed deadline: now+2h+1h
	for i := 0; i < 5; i++ {
		r := insert("set-then-extend", time.Hour)
		c.Query(func(txn *column.Txn) error {
			return txn.QueryAt(r.off, func(row column.Row) error {
				until := row.SetTTL(2 * time.Hour)
				txn.TTL().Extend(time.Hour)
				r.deadline = until.UnixNano() + int64(time.Hour)
				return nil
			})
		})
		r.mustLive = true
	}
	// concurrent extenders: every committed extension must be in the final deadline exactly once
	var extended []*ttlRow
	for i := 0; i < 4; i++ {
		r := insert("concurrently-extended", time.Hour)
		r.mustLive = true
		extended = append(extended, r)
	}
	// in groups of four started together on one row; after each group the primary is quiescent on that
	// row: the replica, fed the stream so far, must report the same deadline, and it must be the sum
	var extSum [4]int64
	groups := 0
	for n := 0; n < 150; n++ {
		ri := n % len(extended)
		start := make(chan struct{})
		var extWG sync.WaitGroup
		for gi := 0; gi < 4; gi++ {
			gi := gi
			extWG.Add(1)
			go func() {
				defer extWG.Done()
				rr := rngFor(w.Seed, 72, idx, gi, n)
				d := time.Duration(1+rr.Intn(1000)) * time.Microsecond
				<-start
				c.Query(func(txn *column.Txn) error {
					return txn.QueryAt(extended[ri].off, func(column.Row) error { txn.TTL().Extend(d); return nil })
				})
				atomic.AddInt64(&extSum[ri], int64(d))
			}()
		}
		close(start)
		extWG.Wait()
		feed()
		groups++
		want := extended[ri].deadline + atomic.LoadInt64(&extSum[ri])
		pv, pok := readExpire(c, extended[ri].off)
		rv, rok := readExpire(replica, extended[ri].off)
		if !pok || pv != want {
			fail(fmt.Sprintf("row %d: after %d groups of four concurrent extensions the deadline reads (%d,%v), base + committed extensions = %d", extended[ri].off, groups, pv, pok, want))
			break
		}
		if rok != pok || rv != pv {
			fail(fmt.Sprintf("row %d: after a group of four concurrent extensions (all acknowledged, stream replayed in emission order) the replica reports deadline (%d,%v), the primary (%d,%v): difference %s", extended[ri].off, rv, rok, pv, pok, time.Duration(pv-rv)))
			break
		}
	}
	for i, r := range extended {
		r.deadline += atomic.LoadInt64(&extSum[i])
	}
	w.Stat("replica_deadline_comparisons_after_concurrent_extensions", int64(groups))
	w.Stat("concurrent_extensions", 600)
	// the stored deadline must be exactly what the API reported
	for _, r := range rows {
		r := r
		var v int64
		var ok bool
		c.QueryAt(r.off, func(row column.Row) error { v, ok = row.Int64("expire"); return nil })
		// (no library call inside the callback: it runs under the block's read latch, and a second read latch
		// behind a waiting cleanup commit never gets in - seen once in 5 400 cases of a thorough dry run)
		if r.deadline == 0 {
			if ok && v != 0 {
				fail(fmt.Sprintf("row %d (%s) has no TTL but expire reads %d", r.off, r.group, v))
			}
			continue
		}
		if (!ok || v != r.deadline) && present(c, r.off) { // still there after the read, so it was there during the read
			fail(fmt.Sprintf("row %d (%s): expire reads (%d,%v), the API reported deadline %d", r.off, r.group, v, ok, r.deadline))
		}
	}

	// writers: unrelated updates and extensions on the same rows, and new inserts, beside the cleanup
	var stop int32
	var wg sync.WaitGroup
	var updates int64
	for wi := 0; wi < 3; wi++ {
		wi := wi
		wg.Add(1)
		go func() {
			defer wg.Done()
			r := rngFor(w.Seed, 71, idx, wi)
			for atomic.LoadInt32(&stop) == 0 {
				t := rows[r.Intn(len(rows))]
				if t.mustLive { // rows that may expire are not written (a write to a removed row is outside the model)
					c.QueryAt(t.off, func(row column.Row) error {
						row.MergeInt64("m", 1)
						row.SetString("s", "x")
						return nil
					})
					atomic.AddInt64(&updates, 1)
				}
				if r.Intn(20) == 0 {
					c.Insert(func(row column.Row) error { row.SetTTL(time.Duration(5+r.Intn(20)) * time.Millisecond); return nil })
				}
				time.Sleep(200 * time.Microsecond)
			}
		}()
	}

	// observation loop, driven by pass counts
	lastPass, lastAdvance := int64(-1), time.Now()
	var observations, liveChecks, expiredSeen int64
	maxDeadline := int64(0)
	for _, r := range rows {
		if !r.mustLive && r.deadline > maxDeadline {
			maxDeadline = r.deadline
		}
	}
	for {
		p := atomic.LoadInt64(&passes) // passes completed before this observation
		if p != lastPass {
			lastPass, lastAdvance = p, time.Now()
		} else if time.Since(lastAdvance) > 30*time.Second {
			fail(fmt.Sprintf("the cleanup loop stopped: no vacuum pass for 30 s at a %s interval (%d passes so far)", interval, p))
			break
		}
		live := map[uint32]bool{}
		c.Query(func(txn *column.Txn) error {
			id := txn.Int64("id")
			return txn.Range(func(i uint32) {
				if v, ok := id.Get(); ok && v == int64(i)+1000000 { // the tracked row itself, not a later occupant of its offset
					live[i] = true
				}
			})
		})
		after := time.Now().UnixNano()
		observations++
		done := true
		for _, r := range rows {
			if r.gone {
				continue
			}
			if r.mustLive {
				liveChecks++
				if !live[r.off] && r.judged {
					fail(fmt.Sprintf("row %d (%s, deadline %s) was removed by the cleanup after %d passes", r.off, r.group, showDeadline(r.deadline), p))
					r.gone = true
				}
				continue
			}
			if !live[r.off] {
				r.gone = true
				expiredSeen++
				if after < r.deadline-int64(20*time.Millisecond) {
					fail(fmt.Sprintf("row %d (%s) was removed %.1f ms before its deadline", r.off, r.group, float64(r.deadline-after)/1e6))
				}
				continue
			}
			done = false
			if r.goneBy == 0 && after > r.deadline {
				// passes p+1 may have started before the deadline; p+2 .. p+1+K started after it
				r.goneBy = atomic.LoadInt64(&passes) + 1 + ttlK
			} else if r.goneBy != 0 && p >= r.goneBy {
				fail(fmt.Sprintf("row %d (%s): deadline passed, %d further vacuum passes completed (more than %d started after the deadline) and the row is still present", r.off, r.group, p-(r.goneBy-1-ttlK), ttlK))
				r.gone = true
			}
		}
		if done && after > maxDeadline {
			break
		}
		time.Sleep(interval / 2)
	}
	atomic.StoreInt32(&stop, 1)
	wg.Wait()
	// deadlines survive snapshot/restore and replication
	var buf bytes.Buffer
	if err := c.Snapshot(&buf); err != nil {
		fail("Snapshot failed: " + err.Error())
	}
	restored := column.NewCollection(column.Options{Capacity: 1000, Vacuum: time.Hour})
	restored.CreateColumn("m", column.ForInt64())
	restored.CreateColumn("s", column.ForString())
	restored.CreateColumn("id", column.ForInt64())
	defer restored.Close()
	if err := restored.Restore(bytes.NewReader(buf.Bytes())); err != nil {
		fail("Restore failed: " + err.Error())
	}
	feed()
	compared := 0
	for _, r := range rows {
		if !r.mustLive || !r.judged {
			continue
		}
		want, wok := readExpire(c, r.off)
		for name, other := range map[string]*column.Collection{"restored": restored, "replica": replica} {
			got, ok := readExpire(other, r.off)
			if ok != wok || got != want {
				fail(fmt.Sprintf("row %d (%s): deadline on the %s collection is (%d,%v), the primary has (%d,%v)", r.off, r.group, name, got, ok, want, wok))
			}
			compared++
		}
	}
	// rows inserted without a TTL on the replica and on the restored collection (they take the offsets
	// of rows that expired on the primary, removed there by replayed / restored deletes) have no deadline
	fresh := 0
	for name, other := range map[string]*column.Collection{"restored": restored, "replica": replica} {
		for i := 0; i < 150; i++ {
			off, err := other.Insert(func(row column.Row) error { row.SetInt64("m", 1); return nil })
			if err != nil {
				fail("insert on the " + name + " collection failed: " + err.Error())
				break
			}
			fresh++
			if v, ok := readExpire(other, off); ok && v != 0 {
				fail(fmt.Sprintf("a row inserted without a time-to-live on the %s collection (offset %d, freed by a delete that arrived through the stream / the snapshot) has deadline %d (%s)", name, off, v, showDeadline(v)))
				break
			}
		}
	}
	w.Stat("rows_inserted_without_ttl_on_replica_and_restored", int64(fresh))
	total := atomic.LoadInt64(&passes)
	w.Stat("vacuum_passes_observed", total)
	w.Stat("observations", observations)
	w.Stat("must_live_row_checks", liveChecks)
	w.Stat("rows_seen_expiring", expiredSeen)
	w.Stat("unrelated_updates_beside_cleanup", atomic.LoadInt64(&updates))
	w.Stat("deadlines_compared_after_restore_and_replay", int64(compared))
	withheld := 0
	for _, r := range rows {
		if !r.judged {
			withheld++
		}
	}
	w.Stat("verdicts_withheld_by_clock", int64(withheld))
	w.Eval(hashOf("ttl", idx, interval, expiredSeen), expiredSeen > 0 && total > 5)
	if idx < 3 {
		w.Sample(map[string]any{"interval": interval.String(), "rows": len(rows), "vacuum_passes": total, "observations": observations, "rows_seen_expiring": expiredSeen, "verdicts_withheld": withheld})
	}
}

// ttlBoundaryCase: the cleanup beside an insert whose reserved row is the first of a new 16K block
// (collection exactly full up to the block boundary, so the new block exists in the fill list
// only). The reserved row has no TTL: it must be there after the insert committed, whatever the
// cleanup did meanwhile. While the insert is open a few rows of an earlier block are given a 5 ms
// TTL; the commit of the pass that removes them (its selection was taken while the insert was
// open) is held at commit.beforeLatch until the insert has committed, then let go - the order
// "selection, insert commits, cleanup commits" that a slow reader on the earlier block produces.
// On even boundaries nothing is held.
func ttlBoundaryCase(w *W, idx int) {
	intervals := []time.Duration{time.Millisecond, 3 * time.Millisecond}
	interval := intervals[idx%len(intervals)]
	caseID := fmt.Sprintf("E7:ttl-boundary:interval=%s:%d", interval, idx)
	w.Begin(idx, caseID)
	rng := rngFor(w.Seed, 73, idx)
	c := column.NewCollection(column.Options{Capacity: 1000, Vacuum: interval})
	defer c.Close()
	c.CreateColumn("id", column.ForInt64())
	var passes, ours, held, gate int64
	release := make(chan struct{})
	var relMu sync.Mutex
	hook := func(point string, cc *column.Collection, block uint32) {
		if cc != c {
			return
		}
		switch point {
		case "vacuum.pass":
			atomic.AddInt64(&passes, 1)
		case "commit.beforeLatch":
			if atomic.LoadInt64(&gate) == 1 && atomic.LoadInt64(&ours) == 0 {
				relMu.Lock()
				ch := release
				relMu.Unlock()
				atomic.AddInt64(&held, 1)
				select {
				case <-ch:
				case <-time.After(20 * time.Second):
				}
			}
		}
	}
	column.VerifHook.Store(&hook)
	defer column.VerifHook.Store(nil)
	fail := func(detail string) {
		w.Violate(idx, caseID, fmt.Sprintf("[interval %s] %s", interval, detail), "", map[string]any{"phase": 1, "idx": idx})
	}
	stalled := false
	waitFor := func(what string, cond func() bool) bool {
		t0 := time.Now()
		for !cond() {
			if time.Since(t0) > 30*time.Second {
				fail("the cleanup loop stopped: " + what + " did not happen within 30 s")
				stalled = true
				return false
			}
			time.Sleep(interval / 2)
		}
		return true
	}
	waitPasses := func(n int64) bool {
		start := atomic.LoadInt64(&passes)
		return waitFor(fmt.Sprintf("%d further passes", n), func() bool { return atomic.LoadInt64(&passes) >= start+n })
	}
	var boundaries, openPasses, heldCommits, expired int64
	for b := 1; b <= 3 && !stalled; b++ {
		last := uint32(b<<14) - 1
		// fill every hole up to the boundary with rows that have no TTL
		atomic.StoreInt64(&ours, 1)
		c.Query(func(txn *column.Txn) error {
			for full := false; !full; {
				txn.Insert(func(row column.Row) error {
					row.SetInt64("id", int64(row.Index())+1000000)
					full = row.Index() >= last
					return nil
				})
			}
			return nil
		})
		atomic.StoreInt64(&ours, 0)
		if n := c.Count(); n != b<<14 {
			fail(fmt.Sprintf("count %d after filling every offset below %d", n, b<<14))
			return
		}
		gated := b%2 == 1
		atomic.StoreInt64(&held, 0)
		var off uint32
		reserved, goCh, done := make(chan struct{}), make(chan struct{}), make(chan error, 1)
		p0 := atomic.LoadInt64(&passes)
		go func() {
			_, err := c.Insert(func(row column.Row) error {
				off = row.Index()
				row.SetInt64("id", int64(row.Index())+1000000)
				close(reserved)
				<-goCh
				atomic.StoreInt64(&ours, 1)
				return nil
			})
			atomic.StoreInt64(&ours, 0)
			done <- err
		}()
		<-reserved
		if off != last+1 {
			fail(fmt.Sprintf("block %d: the insert into the full collection reserved offset %d, not %d", b, off, last+1))
		}
		ok := waitPasses(2)
		if gated {
			atomic.StoreInt64(&gate, 1)
		}
		// a few rows of an earlier block get a 5 ms TTL while the insert is open
		var short []uint32
		for i := 0; i < 4; i++ {
			short = append(short, uint32(rng.Intn(b<<14-1))&^1) // even offsets: never the boundary row
		}
		atomic.StoreInt64(&ours, 1)
		c.Query(func(txn *column.Txn) error {
			for _, o := range short {
				txn.QueryAt(o, func(row column.Row) error { row.SetTTL(5 * time.Millisecond); return nil })
			}
			return nil
		})
		atomic.StoreInt64(&ours, 0)
		if ok && gated {
			ok = waitFor("a cleanup commit for the expired rows", func() bool { return atomic.LoadInt64(&held) > 0 })
		} else if ok {
			ok = waitPasses(int64(10*time.Millisecond/interval) + 3)
		}
		openPasses += atomic.LoadInt64(&passes) - p0
		close(goCh)
		<-done
		heldCommits += atomic.LoadInt64(&held)
		atomic.StoreInt64(&gate, 0)
		relMu.Lock()
		close(release)
		release = make(chan struct{})
		relMu.Unlock()
		if !ok {
			return
		}
		// the expired rows go within K passes, the boundary row stays
		gone := func() int {
			n := 0
			for _, o := range short {
				if v, has := readExpire(c, o); !(has && v != 0 && present(c, o)) {
					n++
				}
			}
			return n
		}
		if !waitPasses(ttlK + 2) {
			return
		}
		if g := gone(); g != len(short) {
			fail(fmt.Sprintf("block %d: %d of %d rows given a 5 ms time-to-live are still present %d passes later", b, len(short)-g, len(short), ttlK+2))
		}
		expired += int64(len(short))
		if !present(c, off) {
			fail(fmt.Sprintf("block %d: row %d, inserted without a time-to-live as the first row of a new block while %d cleanup passes ran, is gone after its insert committed (cleanup commits held until the insert had committed: %d)", b, off, atomic.LoadInt64(&passes)-p0, atomic.LoadInt64(&held)))
		}
		distinct := map[uint32]bool{}
		for _, o := range short {
			distinct[o] = true
		}
		if n := c.Count(); n != b<<14+1-len(distinct) {
			fail(fmt.Sprintf("block %d: count %d after the round; %d rows without a time-to-live plus the boundary row minus %d expired rows = %d", b, n, b<<14, len(distinct), b<<14+1-len(distinct)))
		}
		boundaries++
	}
	w.Stat("boundary_inserts_held_open", boundaries)
	w.Stat("vacuum_passes_while_insert_open", openPasses)
	w.Stat("cleanup_commits_held_until_insert_committed", heldCommits)
	w.Stat("vacuum_passes_observed", atomic.LoadInt64(&passes))
	w.Stat("rows_seen_expiring", expired)
	w.Stat("must_live_row_checks", boundaries*16384)
	w.Eval(hashOf("ttl-boundary", idx, interval), boundaries == 3 && heldCommits >= 1)
	if idx < 2 {
		w.Sample(map[string]any{"interval": interval.String(), "boundaries": boundaries, "passes_while_open": openPasses, "cleanup_commits_held": heldCommits})
	}
}

func present(c *column.Collection, off uint32) bool {
	found := false
	c.Query(func(txn *column.Txn) error {
		id := txn.Int64("id")
		return txn.Range(func(i uint32) {
			if v, ok := id.Get(); i == off && ok && v == int64(i)+1000000 {
				found = true
			}
		})
	})
	return found
}

func readExpire(c *column.Collection, off uint32) (int64, bool) {
	var v int64
	var ok bool
	c.QueryAt(off, func(row column.Row) error { v, ok = row.Int64("expire"); return nil })
	return v, ok
}

func showDeadline(d int64) string {
	if d == 0 {
		return "never"
	}
	return time.Until(time.Unix(0, d)).Round(time.Millisecond).String() + " from now"
}

func init() {
	register(&Property{ID: "C17", Level: "exploration",
		Rule: "one case = one collection with the real cleanup goroutine at a 1 / 5 / 20 ms interval, ~150 tracked rows in three blocks (no TTL, 1 h, short 40-300 ms, 1 h extended by +1 h, 1 h shortened to ~100 ms, short reset to never / 1 h) beside three writers doing unrelated updates on the same rows and inserting short-lived rows; safety: rows without TTL or with a deadline >= 1 h away must be present at every observation (no clock involved); a short-lived row found missing must not be more than 20 ms ahead of its deadline; bounded liveness: once an observation sees now > deadline, the row must be gone after K=5 further vacuum passes that started after the deadline (passes counted at the vacuum.pass hook); deadlines must be stored exactly as reported by SetTTL/Extend and equal after snapshot/restore and stream replay; non-trivial = at least one row seen expiring and more than 5 passes observed; phase 2 (block boundary): a collection filled exactly to 16384 / 32768 / 49152 rows, an insert held open whose reserved row is the first of the new block (which exists in the fill list only) while cleanup passes run and four rows of earlier blocks are given a 5 ms TTL; on odd boundaries the commit of the pass that removes them is held at commit.beforeLatch until the insert has committed; the boundary row (no TTL) must be present afterwards, the four rows gone within K+2 passes, and Count must be boundary + 1 - expired",
		Assume: []string{"the wall clock does not step backwards by more than 20 ms during a case (a clock step can only withhold or, beyond that margin, wrongly raise the 'removed before its deadline' verdict)",
			"a stalled cleanup loop is declared after 30 s without a pass at a <= 20 ms interval (1 500 missed ticks)",
			"rows whose deadline was moved later are judged only when the moving transaction was acknowledged 150 ms before the old deadline"},
		Plan: func(tier string) []Plan {
			n := 60
			if tier == "thorough" {
				n = 5400
			}
			return []Plan{{Cases: n, Workers: 6, MaxProcs: 4, Timeout: 30 * time.Minute, HangIsViol: true},
				{Cases: n / 3, Workers: 6, MaxProcs: 4, Timeout: 30 * time.Minute, HangIsViol: true}}
		},
		Run: func(w *W, phase, idx int) {
			if phase == 1 {
				ttlBoundaryCase(w, idx)
				return
			}
			ttlCase(w, idx)
		},
		MinEvents: map[string]int64{"vacuum_passes_observed": 50, "rows_seen_expiring": 50, "must_live_row_checks": 1000},
	})
}
