package main

// props_conc.go — registration of the properties decided by concurrency monitors
// (E2 controlled schedules, E3 parallel stress) together with their sequential E1 parts.

import (
	"fmt"
	"time"
)

func cfgC06(tier string) e1Cfg {
	t := baseTxn()
	t.MergePct, t.SwallowPct, t.PFailInsert = 45, 30, 8
	// Interlope: in half of the histories other clients commit between the operations of the observed
	// transaction (e.g. between a failed insert of a transaction that carries on and its rollback)
	return e1Cfg{Prop: "C06", Kinds: allKinds, LateKinds: []Kind{KInt, KString, KEnum}, KeyedPct: 25, LayoutPct: 50, Steps: steps(tier, 90, 300), Pool: "edge",
		Replica: true, NIdx: 3, NSorted: 1, PIdxChg: 3, PNewCol: 1, Txn: t, DumpEvery: 2, Oracles: oracleSet("replica"), DensePct: 8, Interlope: true, PDelAll: 2}
}

func cfgC15(tier string) e1Cfg {
	t := baseTxn()
	t.PAbort, t.PFailInsert = 20, 12
	return e1Cfg{Prop: "C15", Kinds: []Kind{KInt, KInt16, KUint64, KFloat64, KBool, KString, KStringCat, KEnum, KRecord}, KeyedPct: 25, LayoutPct: 60, Steps: steps(tier, 130, 400), Pool: "edge",
		NIdx: 1, Txn: t, DumpEvery: 16, Oracles: oracleSet("stream"), FlakyLogPct: 25, PDelAll: 2}
}

func e1PhaseFor(cfg func(string) e1Cfg, quick, thorough int) (func(string) Plan, func(*W, int)) {
	return func(tier string) Plan { return e1Plan(quick, thorough)(tier)[0] }, func(w *W, idx int) { runHistory(w, idx, cfg(w.Tier)) }
}

func probePhaseFor(prop string) (func(string) Plan, func(*W, int)) {
	return func(string) Plan {
			return Plan{Cases: len(probesByProp[prop]), Workers: 1, MaxProcs: 1, Timeout: 5 * time.Minute}
		},
		func(w *W, idx int) { runProbe(w, idx, prop) }
}

var concAssume = []string{
	"controlled schedules park tasks only at lock-free instrumentation points (DESIGN.md 3.2): preemption inside a latch-protected section is not explored by E2 (E3 covers it with real parallelism)",
	"apply order per block = arrival order at the logger, which the library invokes inside the block latch",
	"the reference model (harness/cmd/vcheck/model.go) encodes the property statement correctly"}

func init() {
	{
		mp := &multiPhase{}
		mp.add(e2PhaseFor("C06", e2Oracles{replica: true}))
		mp.add(e1PhaseFor(cfgC06, 1600, 24000))
		mp.add(probePhaseFor("C06"))
		mp.add(streamPhaseFor("C06", 4, 40))
		mp.add(countPlan, func(w *W, idx int) {
			withWatchdog(w, idx, fmt.Sprintf("E3:count:round%d", idx), 5*time.Minute, func() { countRound(w, idx) })
		})
		mp.add(countPlan, func(w *W, idx int) {
			withWatchdog(w, idx, fmt.Sprintf("E3:key-takeover:round%d", idx), 5*time.Minute, func() { keyTakeoverRound(w, idx) })
		})
		register(&Property{ID: "C06", Level: "exploration",
			Rule:   "phase 1: every interleaving (exhaustive for the small scenarios named in notes, uniform seeded samples for 'big') of scripted writers at the commit protocol's lock-free yield points; the emitted commits go through the real commit.Channel (cloned) and a real commit.Log file and are replayed in emission order on two replicas; at quiescence dump(primary) == dump(channel replica) == dump(log replica); phase 2: seeded single-writer histories over all column kinds with a stream replica compared after every step; phase 3: directed probes (the recorded finding; a key deleted in one block while another block's row takes it over, forced at commit.betweenColumns); phase 4: parallel stream rounds; phase 5: marker commits of different blocks overlapping (forced from a trigger callback during the column clean-up of a delete, and free-running pairs), Count() of primary and replica against the rows visited; phase 6: deleters free keys of block-0 rows while takers re-key block-1 rows to them under real parallelism (one deleter and one taker per key), every key compared between primary and stream replica at quiescence; distinct = distinct schedule traces / history hashes; every executed schedule commits at least two transactions (non-trivial)",
			Assume: concAssume, Plan: mp.Plan, Run: mp.Run, MinEvents: map[string]int64{"schedules_executed": 500, "schedules_with_reordered_commits": 50, "replica_comparisons": 500}})
	}
	{
		mp := &multiPhase{}
		mp.add(e2PhaseFor("C08", e2Oracles{snapshot: true}))
		mp.add(streamPhaseFor("C08", 4, 40))
		mp.add(racePlan(2, 20), func(w *W, idx int) {
			withWatchdog(w, idx, fmt.Sprintf("E3:snapshot-wide:round%d", idx), 5*time.Minute, func() { snapshotWideRound(w, idx) })
		})
		// the same under the plain build: full speed, 48 committers contending for the snapshot recorder
		mp.add(func(tier string) Plan {
			pl := racePlan(2, 20)(tier)
			pl.Race = false
			return pl
		}, func(w *W, idx int) {
			withWatchdog(w, idx, fmt.Sprintf("E3:snapshot-wide:round%d", idx+100), 5*time.Minute, func() { snapshotWideRound(w, idx+100) })
		})
		register(&Property{ID: "C08", Level: "exploration",
			Rule:   "one case = 48 schedules of a scenario (2-3 scripted writers: updates, merges on shared and own cells, deletes, inserts, two-block transactions, a rolled-back transaction) + one Snapshot, interleaved at every lock-free yield point of the commit and snapshot protocols (exhaustive in thorough for 2w1b and 2w1b-3txn = 9 240 and 72 072 interleavings; uniform seeded samples otherwise); the snapshot bytes are restored and every block must equal S_b[k], the fold of the first k commits in the order they reached the logger, for some k between the last commit acknowledged before Snapshot was called and the number applied before it returned; distinct = distinct schedule traces",
			Assume: concAssume, Plan: mp.Plan, Run: mp.Run, MinEvents: map[string]int64{"schedules_executed": 1000, "snapshots_overlapping_commits": 200}})
	}
	{
		mp := &multiPhase{}
		mp.add(e2PhaseFor("C09", e2Oracles{merges: true, replica: true}))
		mp.add(racePlan(40, 2400), func(w *W, idx int) {
			withWatchdog(w, idx, fmt.Sprintf("E3:merge-linearizability:round%d", idx), 5*time.Minute, func() { mergeLinRound(w, idx) })
		})
		mp.add(streamPhaseFor("C09", 4, 100))
		mp.add(probePhaseFor("C09"))
		// merges beside index / trigger creation and removal on the merged column (the index-build rounds of C03 count them)
		mp.add(racePlan(2, 20), func(w *W, idx int) {
			withWatchdog(w, idx, fmt.Sprintf("E3:index-build-beside-writers:round%d", idx), 5*time.Minute, func() { indexBuildRound(w, idx) })
		})
		mp.add(func(tier string) Plan {
			n := 4
			if tier == "thorough" {
				n = 96
			}
			return Plan{Cases: n, Workers: 2, MaxProcs: 8, Timeout: 40 * time.Minute, HangIsViol: true}
		}, func(w *W, idx int) {
			withWatchdog(w, idx, fmt.Sprintf("E3:merge-into-new-block:round%d", idx), 5*time.Minute, func() { mergeNewBlockRound(w, idx) })
		})
		register(&Property{ID: "C09", Level: "exploration",
			Rule:   "one case = 48 schedules of 2-3 scripted writers merging into the same rows (additive int64/float64 with distinct bits, order-sensitive v*3+d, string concatenation) mixed with overwrites, in one and two blocks, some beside a snapshot; after all writers joined every block must equal the fold of all commits in the order they reached the logger, and the replicas fed the rewritten (absolute) values must equal the primary; every committed transaction must have a commit applied in every block it changed; further phases: porcupine-checked per-row merge/put/read histories under real parallelism, parallel stream rounds folded in apply order, directed probes, and groups of six transactions started together that merge into one cell of a block nobody has committed to yet (the first creates the block); distinct = distinct schedule traces",
			Assume: concAssume, Plan: mp.Plan, Run: mp.Run, MinEvents: map[string]int64{"schedules_executed": 500, "schedules_with_reordered_commits": 50}})
	}
	{
		mp := &multiPhase{}
		mp.add(e2PhaseFor("C15", e2Oracles{stream: true}))
		mp.add(e1PhaseFor(cfgC15, 1600, 24000))
		mp.add(streamPhaseFor("C15", 4, 40))
		register(&Property{ID: "C15", Level: "exploration",
			Rule:   "phase 1: every interleaving of scripted writers (single/two-block, rolled back, inserting, deleting) at the lock-free yield points; the recording logger (called inside the latch) must see, per committed transaction, exactly one commit per block it changed, nothing for rolled-back ones, non-zero distinct IDs, strictly increasing per block in arrival order, and the real commit.Channel must deliver the same (ID, block) sequence; phase 2: seeded single-writer histories (single/multi-block, read-only, rolled back, failing inserts) with the same exactly-once oracle per transaction; distinct = distinct schedule traces / history hashes",
			Assume: concAssume, Plan: mp.Plan, Run: mp.Run, MinEvents: map[string]int64{"schedules_executed": 500, "commits_observed": 2000}})
	}
}
