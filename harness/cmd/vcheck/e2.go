package main

// e2.go — E2 controlled-schedule monitor: scripted writers (and optionally a snapshotter) run
// under the controlled scheduler; schedules are enumerated (exhaustively for small scenarios,
// seeded uniform samples of the interleaving space for larger ones). The recording logger is
// invoked inside the block latch, so its arrival order per block is the apply order — the
// ground truth the oracles fold the scripted operations in.

import (
	"bytes"
	"fmt"
	"math"
	"math/big"
	"math/rand"
	"sort"
	"strings"
	"time"

	"github.com/kelindar/column"
	"github.com/kelindar/column/commit"
)

type e2Scenario struct {
	Name        string
	Writers     [][]TxnSpec
	Snap        bool
	Keyed       bool
	YieldInsert bool // writers yield after each insert callback (reservation visible, not yet committed)
	Rows        []uint32
}

var e2Cols = []ColSpec{{"x", KInt64}, {"m", KInt64}, {"im", KInt64Mul}, {"sc", KStringCat}, {"s", KString}, {"e", KEnum}, {"b", KBool}, {"f", KFloat64}, {"rm", KRecordMerge},
	{"p0", KInt64}, {"p1", KInt64}, {"p2", KInt64}, {"p3", KInt64},
	// one merge column per remaining numeric kind (absent at first: the first merge lands on "no value")
	{"ni", KInt}, {"ni16", KInt16}, {"ni32", KInt32}, {"nu", KUint}, {"nu16", KUint16}, {"nu32", KUint32}, {"nu64", KUint64}, {"nf32", KFloat32}}

// allNums merges n into every numeric-kind column of the row (f is float64, m is int64)
func allNums(n int64) []Write {
	out := []Write{}
	for _, c := range e2Cols {
		if len(c.Name) > 1 && c.Name[0] == 'n' {
			out = append(out, addK(c.Name, c.Kind, n))
		}
	}
	return out
}

func addK(col string, k Kind, n int64) Write {
	b := uint64(n)
	switch k {
	case KFloat32:
		b = uint64(math.Float32bits(float32(n)))
	case KFloat64:
		b = math.Float64bits(float64(n))
	}
	return Write{Col: col, Merge: true, V: Val{B: canonBits(k, b)}}
}

func with(base []Write, more ...Write) []Write { return append(append([]Write{}, base...), more...) }

var e2Idx = []IndexSpec{{Name: "m_big", Col: "m", P: Pred{Op: "int>=", I: 3}}, {Name: "x_neg", Col: "x", P: Pred{Op: "int<", I: 0}}, {Name: "sc_long", Col: "sc", P: Pred{Op: "len>", I: 1}}}

func put(col string, v int64) Write   { return Write{Col: col, V: Val{B: uint64(v)}} }
func add(col string, v int64) Write   { return Write{Col: col, Merge: true, V: Val{B: uint64(v)}} }
func cat(col string, s string) Write  { return Write{Col: col, Merge: true, V: Val{S: s}} }
func puts(col string, s string) Write { return Write{Col: col, V: Val{S: s}} }
func at(off uint32, ws ...Write) Op   { return Op{T: "at", Off: off, W: ws} }
func del(off uint32) Op               { return Op{T: "del", Off: off} }
func ins(ws ...Write) Op              { return Op{T: "ins", W: ws} }
func txn(ops ...Op) TxnSpec           { return TxnSpec{Ops: ops} }
func aborted(ops ...Op) TxnSpec       { return TxnSpec{Ops: ops, Abort: true} }
func inskey(k string, ws ...Write) Op { return Op{T: "inskey", Key: k, W: ws} }
func upskey(k string, ws ...Write) Op { return Op{T: "upskey", Key: k, W: ws} }
func ws(w ...Write) []Write           { return w }

// rmg merges a record delta (order-sensitive counter, appended tag) into a record cell that is absent at first
func rmg(a uint32, tag string) Write {
	return Write{Col: "rm", Merge: true, V: Val{S: recToString(&Rec{A: a, B: []byte(tag)})}}
}

const b1 = 16384

var e2Scenarios = map[string]e2Scenario{
	// two writers on one row of one block: own cells + shared merges (prefix-distinguishable)
	"2w1b": {Name: "2w1b", Rows: []uint32{1, 2, 3}, Writers: [][]TxnSpec{
		{txn(at(1, with(allNums(3), put("p0", 101), add("m", 1), add("im", 5), cat("sc", "a"), rmg(1, "x"))...))},
		{txn(at(1, with(allNums(5), put("p1", 201), add("m", 2), add("im", 7), cat("sc", "b"), rmg(2, ""))...), at(2, put("x", -7)))},
	}},
	// one writer with one transaction, one with two
	"2w1b-3txn": {Name: "2w1b-3txn", Rows: []uint32{1, 2, 3}, Writers: [][]TxnSpec{
		{txn(at(1, put("p0", 101), add("m", 1), add("im", 5)))},
		{txn(at(1, put("p1", 201), add("m", 2), add("im", 7))), txn(at(1, put("p2", 301), add("m", 4), add("im", 11)), at(3, put("x", 9)))},
	}},
	// a two-block writer overtaken on block 0 by a one-block writer
	"2blk": {Name: "2blk", Rows: []uint32{1, 2, b1 + 1, b1 + 2}, Writers: [][]TxnSpec{
		{txn(at(1, put("x", 5), add("m", 1), put("p0", 11)), at(b1+1, put("p0", 12), add("m", 1)))},
		{txn(at(1, put("x", 9), add("m", 100), put("p1", 21)))},
	}},
	// two two-block writers in opposite block order of issue
	"2blk2": {Name: "2blk2", Rows: []uint32{1, 2, b1 + 1, b1 + 2}, Writers: [][]TxnSpec{
		{txn(at(b1+1, put("p0", 12), add("m", 1), cat("sc", "a")), at(1, put("p0", 11), add("m", 1), add("im", 3)))},
		{txn(at(1, put("p1", 21), add("m", 2), add("im", 5)), at(b1+1, put("p1", 22), add("m", 2), cat("sc", "b")))},
	}},
	// as 2blk, but the two-block writer visits block 1 before block 0 with the same columns in both
	"2blk-desc": {Name: "2blk-desc", Rows: []uint32{1, 2, b1 + 1, b1 + 2}, Writers: [][]TxnSpec{
		{txn(at(b1+1, put("p0", 12), add("m", 1), cat("sc", "a")), at(1, put("p0", 11), add("m", 1), cat("sc", "b")))},
		{txn(at(1, put("p1", 21), add("m", 100), cat("sc", "c")))},
	}},
	// three mergers on one row
	"3w": {Name: "3w", Rows: []uint32{1, 2}, Writers: [][]TxnSpec{
		{txn(at(1, add("m", 1), add("im", 5), cat("sc", "a"), put("p0", 1), rmg(1, "a")))},
		{txn(at(1, add("m", 2), add("im", 7), cat("sc", "bb"), put("p1", 2), rmg(2, "b")))},
		{txn(at(1, add("m", 4), add("im", 0), cat("sc", "c"), put("p2", 3), rmg(3, "")), at(2, add("f", 4607182418800017408), add("ni", 0)))},
	}},
	// a deleting + re-inserting writer beside an updating writer
	"del": {Name: "del", Rows: []uint32{1, 2, 3}, YieldInsert: true, Writers: [][]TxnSpec{
		{txn(del(3)), txn(ins(put("p0", 77), puts("s", "new")))},
		{txn(at(1, put("p1", 201), add("m", 2)), at(2, put("p1", 202)))},
	}},
	// inserting writers (reservation visible before the commit)
	"ins": {Name: "ins", Rows: []uint32{1, 2}, YieldInsert: true, Writers: [][]TxnSpec{
		{txn(ins(put("p0", 77), add("m", 1)), at(1, add("m", 1), put("p0", 1)))},
		{txn(ins(put("p1", 88)), at(1, add("m", 2), put("p1", 2)))},
	}},
	// inserts into an empty collection: the first reservation makes a block that nothing was committed to yet
	"ins-empty": {Name: "ins-empty", Rows: nil, YieldInsert: true, Writers: [][]TxnSpec{
		{txn(ins(put("p0", 77), add("m", 1)))},
		{txn(ins(put("p1", 88)), ins(put("p1", 89)))},
	}},
	// a rolled-back writer beside a committing one
	"abort": {Name: "abort", Rows: []uint32{1, 2}, YieldInsert: true, Writers: [][]TxnSpec{
		{aborted(ins(put("p0", 77)), at(1, add("m", 1), put("p0", 1))), txn(at(2, put("p0", 5)))},
		{txn(at(1, add("m", 2), put("p1", 2)))},
	}},
	// larger: three writers, two transactions each, two blocks
	"big": {Name: "big", Rows: []uint32{1, 2, 3, b1 + 1, b1 + 2}, Writers: [][]TxnSpec{
		{txn(at(1, add("m", 1), put("p0", 1)), at(b1+1, add("m", 1), put("p0", 2))), txn(at(2, add("im", 3), put("p0", 3)))},
		{txn(at(1, add("m", 2), put("p1", 1))), txn(at(b1+1, add("m", 2), put("p1", 2)), at(1, add("im", 5), cat("sc", "q")))},
		{txn(at(b1+2, put("p2", 1)), at(1, add("m", 4), put("p2", 2))), txn(del(3))},
	}},
	// key scenarios (C12)
	"key-ins-ins": {Name: "key-ins-ins", Keyed: true, Rows: nil, Writers: [][]TxnSpec{
		{txn(inskey("k", put("p0", 1)))},
		{txn(inskey("k", put("p1", 2)))},
	}},
	"key-ups-ups": {Name: "key-ups-ups", Keyed: true, Rows: nil, Writers: [][]TxnSpec{
		{txn(upskey("k", add("m", 1)))},
		{txn(upskey("k", add("m", 2)))},
	}},
	"key-ins-ups-other": {Name: "key-ins-ups-other", Keyed: true, Rows: nil, Writers: [][]TxnSpec{
		{txn(inskey("a", put("p0", 1))), txn(upskey("b", add("m", 1)))},
		{txn(upskey("c", add("m", 2))), txn(inskey("d", put("p1", 1)))},
	}},
}

type commitRec struct {
	Seq   int64
	Task  int
	Txn   int
	Block uint32
	ID    uint64
}

type e2Run struct {
	sc          e2Scenario
	P           *column.Collection
	M0          *Model
	sched       *Sched
	log         []commitRec
	ch          commit.Channel
	file        bytes.Buffer
	fileLog     *commit.Log
	curTxn      []int
	specs       [][]TxnSpec
	acks        map[[2]int]int64
	errs        map[[2]int]error
	snapCall    int64
	snapRet     int64
	snapErr     error
	snapBuf     bytes.Buffer
	snapTask    int
	checks      map[[2]int]int64 // key scenarios: when each transaction passed key.afterCheck
	chanCommits []commit.Commit  // what the real commit.Channel delivered, in order
}

func (r *e2Run) Append(c commit.Commit) error {
	if r.sched == nil {
		return nil // set-up commits
	}
	task := r.sched.Current()
	t := -1
	if task >= 0 && task < len(r.curTxn) {
		t = r.curTxn[task]
	}
	r.log = append(r.log, commitRec{Seq: r.sched.Tick(), Task: task, Txn: t, Block: uint32(c.Chunk), ID: c.ID})
	r.ch.Append(c)
	r.fileLog.Append(c)
	return nil
}

func setupCommit(block uint32, rows []uint32, keyed bool) commit.Commit {
	mk := func(name string) *commit.Buffer { b := commit.NewBuffer(64); b.Reset(name); return b }
	row, x, m, im := mk("row"), mk("x"), mk("m"), mk("im")
	for _, off := range rows {
		row.PutOperation(commit.Insert, off)
		x.PutInt64(commit.Put, off, 0)
		m.PutInt64(commit.Put, off, 0)
		im.PutInt64(commit.Put, off, 1)
	}
	return commit.Commit{ID: 1, Chunk: commit.Chunk(block), Updates: []*commit.Buffer{row, x, m, im}}
}

func e2Collection(sc e2Scenario, logger commit.Logger) *column.Collection {
	opts := column.Options{Capacity: 64, Vacuum: 1 << 40}
	if logger != nil {
		opts.Writer = logger
	}
	c := column.NewCollection(opts)
	if sc.Keyed {
		c.CreateColumn("k", column.ForKey())
	}
	for _, cs := range e2Cols {
		c.CreateColumn(cs.Name, makeColumn(cs.Kind))
	}
	for _, ix := range e2Idx {
		p := ix.P
		c.CreateIndex(ix.Name, ix.Col, func(r column.Reader) bool { return p.onReader(r) })
	}
	byBlock := map[uint32][]uint32{}
	for _, off := range sc.Rows {
		byBlock[off>>14] = append(byBlock[off>>14], off)
	}
	blocks := make([]uint32, 0, len(byBlock))
	for b := range byBlock {
		blocks = append(blocks, b)
	}
	sort.Slice(blocks, func(i, j int) bool { return blocks[i] < blocks[j] })
	for _, b := range blocks {
		if err := c.Replay(setupCommit(b, byBlock[b], sc.Keyed)); err != nil {
			panic(err)
		}
	}
	return c
}

func e2Model(sc e2Scenario) *Model {
	m := newModel()
	if sc.Keyed {
		m.addCol(ColSpec{"k", KKey})
	}
	for _, cs := range e2Cols {
		m.addCol(cs)
	}
	m.Idx = append(m.Idx, e2Idx...)
	for _, off := range sc.Rows {
		m.Live[off] = true
		m.Cells["x"][off] = Val{B: 0}
		m.Cells["m"][off] = Val{B: 0}
		m.Cells["im"][off] = Val{B: 1}
	}
	return m
}

func cloneSpecs(in [][]TxnSpec) [][]TxnSpec {
	out := make([][]TxnSpec, len(in))
	for i, ts := range in {
		out[i] = make([]TxnSpec, len(ts))
		for j, t := range ts {
			out[i][j] = cloneSpec(t)
		}
	}
	return out
}

// runSpec executes one scripted transaction inside a scheduled task.
func (r *e2Run) runSpec(t *schedTask, spec *TxnSpec) error {
	m := r.M0
	return r.P.Query(func(txn *column.Txn) error {
		for i := range spec.Ops {
			o := &spec.Ops[i]
			o.Done = true
			rowFn := func(row column.Row) error {
				o.GotOff, o.HasOff = row.Index(), true
				for _, w := range o.W {
					writeCell(txn, row, m.col(w.Col), w)
				}
				return nil
			}
			var err error
			switch o.T {
			case "ins":
				_, err = txn.Insert(rowFn)
				if r.sc.YieldInsert {
					t.Yield("afterInsert")
				}
			case "at":
				o.GotOff, o.HasOff = o.Off, true
				err = txn.QueryAt(o.Off, rowFn)
			case "del":
				o.GotOff, o.HasOff = o.Off, true
				if !txn.DeleteAt(o.Off) {
					o.Err = "not deleted"
				}
			case "inskey":
				err = txn.InsertKey(o.Key, rowFn)
				o.Created = o.HasOff
			case "upskey":
				err = txn.UpsertKey(o.Key, rowFn)
			}
			if err != nil {
				o.Err = err.Error()
				return err
			}
		}
		if spec.Abort {
			return errAbort
		}
		return nil
	})
}

// execute runs the scenario under the chooser and returns the run record.
func e2Execute(sc e2Scenario, choose func([]int, int) int) (*e2Run, string) {
	r := &e2Run{sc: sc, M0: e2Model(sc), ch: make(commit.Channel, 1024), acks: map[[2]int]int64{}, errs: map[[2]int]error{}, checks: map[[2]int]int64{}, snapTask: -1}
	r.fileLog = commit.Open(&r.file)
	r.P = e2Collection(sc, r)
	r.log = nil // drop the set-up commits
	for len(r.ch) > 0 {
		<-r.ch
	}
	r.file.Reset()
	r.fileLog = commit.Open(&r.file)
	r.sched = newSched(r.P)
	r.specs = cloneSpecs(sc.Writers)
	r.curTxn = make([]int, len(sc.Writers))
	for wi := range sc.Writers {
		wi := wi
		r.sched.Add(func(t *schedTask) {
			for ti := range r.specs[wi] {
				r.curTxn[wi] = ti
				err := r.runSpec(t, &r.specs[wi][ti])
				r.errs[[2]int{wi, ti}] = err
				r.acks[[2]int{wi, ti}] = r.sched.Tick()
			}
		})
	}
	if sc.Snap {
		r.snapTask = r.sched.Add(func(t *schedTask) {
			r.snapCall = r.sched.Tick()
			r.snapErr = r.P.Snapshot(&r.snapBuf)
			r.snapRet = r.sched.Tick()
		})
	}
	problem := r.sched.Run(choose, 20*time.Second)
	for len(r.ch) > 0 {
		r.chanCommits = append(r.chanCommits, <-r.ch)
	}
	return r, problem
}

// applyOrder returns, per block, the transactions in the order their commits reached the logger.
func (r *e2Run) applyOrder() map[uint32][]commitRec {
	out := map[uint32][]commitRec{}
	for _, c := range r.log {
		out[c.Block] = append(out[c.Block], c)
	}
	return out
}

func opsInBlock(spec TxnSpec, b uint32) []Op {
	var out []Op
	for _, o := range spec.Ops {
		if o.Done && o.HasOff && o.GotOff>>14 == b {
			out = append(out, o)
		}
	}
	return out
}

// fold returns the states of block b after 0..n commits in apply order.
func (r *e2Run) fold(b uint32, order []commitRec) []*Model {
	cur := r.M0.Clone()
	states := []*Model{cur.Clone()}
	for _, c := range order {
		if c.Task >= 0 && c.Task < len(r.specs) && c.Txn >= 0 {
			cur.Apply(opsInBlock(r.specs[c.Task][c.Txn], b))
		}
		states = append(states, cur.Clone())
	}
	return states
}

func blockOf(st *State, b uint32) *State { return filterRange(st, b, b+1) }

func filterRange(st *State, lo, hi uint32) *State {
	out := &State{Cells: map[string]map[uint32]Val{}, Idx: map[string][]uint32{}, IdxBool: st.IdxBool, ReadErr: st.ReadErr}
	for _, r := range st.Rows {
		if r>>14 >= lo && r>>14 < hi {
			out.Rows = append(out.Rows, r)
		}
	}
	out.Count, out.TxnCount = len(out.Rows), len(out.Rows)
	for c, cells := range st.Cells {
		out.Cells[c] = map[uint32]Val{}
		for o, v := range cells {
			if o>>14 >= lo && o>>14 < hi {
				out.Cells[c][o] = v
			}
		}
	}
	return out
}

func modelBlock(m *Model, b uint32) *Model {
	out := &Model{Cols: m.Cols, KeyCol: m.KeyCol, Live: map[uint32]bool{}, Cells: map[string]map[uint32]Val{}}
	for off := range m.Live {
		if off>>14 == b {
			out.Live[off] = true
		}
	}
	for c, cells := range m.Cells {
		out.Cells[c] = map[uint32]Val{}
		for o, v := range cells {
			if o>>14 == b {
				out.Cells[c][o] = v
			}
		}
	}
	return out
}

func cmpBlock(st *State, m *Model, b uint32) string {
	sb, mb := blockOf(st, b), modelBlock(m, b)
	if d := cmpLive(sb, mb); d != "" {
		return d
	}
	return cmpValues(sb, mb)
}

func (r *e2Run) blocks() []uint32 {
	seen := map[uint32]bool{}
	for _, off := range r.sc.Rows {
		seen[off>>14] = true
	}
	for _, ts := range r.specs {
		for _, t := range ts {
			for _, o := range t.Ops {
				if o.HasOff {
					seen[o.GotOff>>14] = true
				}
			}
		}
	}
	if len(seen) == 0 {
		seen[0] = true
	}
	out := make([]uint32, 0, len(seen))
	for b := range seen {
		out = append(out, b)
	}
	sort.Slice(out, func(i, j int) bool { return out[i] < out[j] })
	return out
}

func (r *e2Run) describe() string {
	var sb strings.Builder
	for wi, ts := range r.specs {
		fmt.Fprintf(&sb, "W%d:", wi)
		for _, t := range ts {
			sb.WriteString(" " + t.String())
		}
		sb.WriteString(" | ")
	}
	fmt.Fprintf(&sb, "trace=%v reached=%v log=", r.sched.Trace, r.sched.Points)
	for _, c := range r.log {
		fmt.Fprintf(&sb, "[b%d W%d.t%d id..%d] ", c.Block, c.Task, c.Txn, c.ID%100000)
	}
	return sb.String()
}

// ---------------------------------------------------------------------------------------------
// Oracles over one run

// oracleStream: C15
func (r *e2Run) oracleStream() string {
	ids := map[uint64]bool{}
	last := map[uint32]uint64{}
	emitted := map[[3]int]int{} // task, txn, block -> count
	for _, c := range r.log {
		if c.ID == 0 {
			return fmt.Sprintf("commit of W%d.t%d for block %d carries ID 0", c.Task, c.Txn, c.Block)
		}
		if ids[c.ID] {
			return fmt.Sprintf("commit ID %d emitted twice", c.ID)
		}
		ids[c.ID] = true
		if c.ID <= last[c.Block] {
			return fmt.Sprintf("block %d: commit of W%d.t%d with ID ..%d was applied (reached the logger) after ID ..%d", c.Block, c.Task, c.Txn, c.ID%1000000, last[c.Block]%1000000)
		}
		last[c.Block] = c.ID
		emitted[[3]int{c.Task, c.Txn, int(c.Block)}]++
	}
	for wi, ts := range r.specs {
		for ti, t := range ts {
			want := map[uint32]bool{}
			if r.errs[[2]int{wi, ti}] == nil {
				want = changedBlocks(t.Ops)
			}
			for b := range want {
				if n := emitted[[3]int{wi, ti, int(b)}]; n != 1 {
					return fmt.Sprintf("W%d.t%d changed block %d and emitted %d commits for it", wi, ti, b, n)
				}
			}
			for k, n := range emitted {
				if k[0] == wi && k[1] == ti && !want[uint32(k[2])] {
					return fmt.Sprintf("W%d.t%d emitted %d commit(s) for block %d which it did not change (or it rolled back)", wi, ti, n, k[2])
				}
			}
		}
	}
	// the same commits, through the real commit.Channel (cloned): identifiable by their ID
	for i, c := range r.chanCommits {
		if i < len(r.log) && (c.ID != r.log[i].ID || uint32(c.Chunk) != r.log[i].Block) {
			return fmt.Sprintf("commit.Channel delivered (ID %d, block %d) for the commit emitted as (ID %d, block %d)", c.ID, c.Chunk, r.log[i].ID, r.log[i].Block)
		}
	}
	if len(r.chanCommits) != len(r.log) {
		return fmt.Sprintf("commit.Channel delivered %d commits, the logger received %d", len(r.chanCommits), len(r.log))
	}
	return ""
}

// oracleMerges: C09 — the primary's final state per block is the fold of every commit in apply order.
func (r *e2Run) oracleMerges(final *State) string {
	order := r.applyOrder()
	// the fold is over the commits that were applied: a committed transaction whose changes to a block
	// were never applied at all (no commit for that block) would be missing from both sides
	applied := map[[3]int]bool{}
	for _, c := range r.log {
		applied[[3]int{c.Task, c.Txn, int(c.Block)}] = true
	}
	for wi, ts := range r.specs {
		for ti, t := range ts {
			if r.errs[[2]int{wi, ti}] != nil {
				continue
			}
			for b := range changedBlocks(t.Ops) {
				if !applied[[3]int{wi, ti, int(b)}] {
					return fmt.Sprintf("W%d.t%d committed, but its changes to block %d were never applied (no commit for that block): committed merges are lost", wi, ti, b)
				}
			}
		}
	}
	for _, b := range r.blocks() {
		states := r.fold(b, order[b])
		if d := cmpBlock(final, states[len(states)-1], b); d != "" {
			return fmt.Sprintf("block %d after all writers joined: %s (expected = fold of %d commits in apply order)", b, d, len(order[b]))
		}
	}
	return ""
}

// oracleReplica: C06
func (r *e2Run) oracleReplica(final *State, sv schemaView) string {
	r1 := e2Collection(r.sc, nil)
	defer r1.Close()
	for _, c := range r.chanCommits {
		if err := r1.Replay(c); err != nil {
			return "Replay(channel commit) failed: " + err.Error()
		}
	}
	r.chanCommits = nil // Replay consumed the buffers
	if d := cmpStates(final, dumpState(r1, sv), "primary", "channel-replica", sv); d != "" {
		return d
	}
	r2 := e2Collection(r.sc, nil)
	defer r2.Close()
	n := 0
	err := commit.Open(bytes.NewReader(r.file.Bytes())).Range(func(c commit.Commit) error {
		n++
		return r2.Replay(c)
	})
	if err != nil {
		return "ranging the commit log failed: " + err.Error()
	}
	if n != len(r.log) {
		return fmt.Sprintf("the commit log file holds %d commits, %d were emitted", n, len(r.log))
	}
	if d := cmpStates(final, dumpState(r2, sv), "primary", "log-replica", sv); d != "" {
		return d
	}
	return ""
}

// oracleSnapshot: C08 — per block the restored state is a prefix state S_b[k], A_b <= k <= B_b.
func (r *e2Run) oracleSnapshot(sv schemaView) (string, bool) {
	if r.snapErr != nil {
		return "Snapshot failed beside writers: " + r.snapErr.Error(), false
	}
	c := e2Collection(e2Scenario{Keyed: r.sc.Keyed}, nil)
	defer c.Close()
	if err := c.Restore(bytes.NewReader(r.snapBuf.Bytes())); err != nil {
		return "Restore of the snapshot failed: " + err.Error(), false
	}
	st := dumpState(c, sv)
	order := r.applyOrder()
	sawKF := false
	for _, b := range r.blocks() {
		ord := order[b]
		states := r.fold(b, ord)
		A, B := 0, 0
		for i, cr := range ord {
			if ack, ok := r.acks[[2]int{cr.Task, cr.Txn}]; ok && ack < r.snapCall {
				A = i + 1
			}
			if cr.Seq < r.snapRet {
				B = i + 1
			}
		}
		matched := -1
		for k := A; k <= B; k++ {
			if cmpBlock(st, states[k], b) == "" {
				matched = k
				break
			}
		}
		if matched >= 0 {
			continue
		}
		// KF-INFLIGHT-INSERT: extra bare rows at offsets reserved by inserts that are not part of the prefix
		reserved := map[uint32]bool{}
		for _, ts := range r.specs {
			for _, t := range ts {
				for _, o := range t.Ops {
					if o.T == "ins" && o.HasOff && o.GotOff>>14 == b {
						reserved[o.GotOff] = true
					}
				}
			}
		}
		stripped := *st
		stripped.Rows = nil
		removed := 0
		for _, off := range st.Rows {
			bare := true
			for _, cs := range sv.Cols {
				if _, ok := st.Cells[cs.Name][off]; ok {
					bare = false
				}
			}
			if off>>14 == b && reserved[off] && bare {
				removed++
				continue
			}
			stripped.Rows = append(stripped.Rows, off)
		}
		if removed > 0 {
			for k := A; k <= B; k++ {
				if cmpBlock(&stripped, states[k], b) == "" {
					matched = k
					break
				}
			}
			if matched >= 0 {
				sawKF = true
				continue
			}
		}
		var diffs []string
		for k := A; k <= B; k++ {
			diffs = append(diffs, fmt.Sprintf("k=%d: %s", k, cmpBlock(st, states[k], b)))
		}
		return fmt.Sprintf("restored block %d equals no prefix state S[%d..%d] of the %d commits applied to it (%s)", b, A, B, len(ord), strings.Join(diffs, "; ")), false
	}
	if sawKF {
		return "restored snapshot contains rows reserved by in-flight inserts (no values)", true
	}
	return "", false
}

// oracleKeys: C12 — at most one live row per key; outcome consistent with map semantics.
func (r *e2Run) oracleKeys(final *State) (string, bool) {
	holders := map[string][]uint32{}
	for _, off := range final.Rows {
		if v, ok := final.Cells["k"][off]; ok {
			holders[v.S] = append(holders[v.S], off)
		}
	}
	for k, offs := range holders {
		if len(offs) > 1 {
			// known finding iff two creating operations of different transactions both passed the
			// existence check before either committed: visible in the trace as two inserts of the key
			creators := 0
			for _, ts := range r.specs {
				for _, t := range ts {
					for _, o := range t.Ops {
						if (o.T == "inskey" || o.T == "upskey") && o.Key == k && o.HasOff && o.Err == "" {
							creators++
						}
					}
				}
			}
			return fmt.Sprintf("%d live rows hold key %q (rows %v)", len(offs), k, offs), creators >= len(offs)
		}
	}
	// every successful creating operation must have produced the key
	for wi, ts := range r.specs {
		for ti, t := range ts {
			if r.errs[[2]int{wi, ti}] != nil {
				continue
			}
			for _, o := range t.Ops {
				if (o.T == "inskey" || o.T == "upskey") && len(holders[o.Key]) != 1 {
					return fmt.Sprintf("W%d.t%d %s(%q) committed but %d rows hold the key", wi, ti, o.T, o.Key, len(holders[o.Key])), false
				}
			}
		}
	}
	for k, off := range final.Keys {
		if hs := holders[k]; len(hs) == 1 && off != int64(hs[0]) {
			return fmt.Sprintf("QueryKey(%q) resolves to %d, the key is held by row %d", k, off, hs[0]), false
		}
	}
	if len(final.KeyErr) > 0 {
		return final.KeyErr[0], false
	}
	return "", false
}

// ---------------------------------------------------------------------------------------------
// Spaces, plans, cases

type e2Space struct {
	Scenario string
	Snap     bool
	Sample   int // 0 = exhaustive
}

type e2Resolved struct {
	sp     e2Space
	sc     e2Scenario
	counts []int
	total  *big.Int
	n      int // schedules to run
	cases  int
}

const e2CaseSize = 48

// segCounts derives, from the script alone, how many segments (yields + 1) every task has:
// a committing transaction yields before the latch and after the unlatch of every block it
// changed, after each insert when the scenario says so, and at key.afterCheck for creating key
// operations; the snapshotter yields at recorderOpen, before each block, before the recorder is
// closed and before the copy. (The parent process computes the plan from this; no library code
// runs there. Workers count fall-backs when an execution deviates from it.)
func segCounts(sc e2Scenario) []int {
	var counts []int
	blocks := map[uint32]bool{}
	for _, r := range sc.Rows {
		blocks[r>>14] = true
	}
	for _, ts := range sc.Writers {
		n := 1
		for _, t := range ts {
			touched := map[uint32]bool{}
			for _, o := range t.Ops {
				switch o.T {
				case "ins":
					touched[0] = true
					if sc.YieldInsert {
						n++
					}
				case "inskey", "upskey":
					touched[0] = true
					n++ // key.afterCheck
				default:
					touched[o.Off>>14] = true
				}
			}
			if !t.Abort {
				n += 2 * len(touched)
			}
		}
		counts = append(counts, n)
	}
	if sc.Snap {
		nb := len(blocks)
		counts = append(counts, 3+nb+1)
	}
	return counts
}

func e2Resolve(sp e2Space) e2Resolved {
	sc := e2Scenarios[sp.Scenario]
	sc.Snap = sp.Snap
	counts := segCounts(sc)
	total := multinomial(counts)
	res := e2Resolved{sp: sp, sc: sc, counts: counts, total: total}
	if sp.Sample == 0 || big.NewInt(int64(sp.Sample)).Cmp(total) >= 0 {
		res.n = int(total.Int64())
		res.sp.Sample = 0
	} else {
		res.n = sp.Sample
	}
	res.cases = (res.n + e2CaseSize - 1) / e2CaseSize
	return res
}

type e2Oracles struct {
	stream, merges, replica, snapshot, keys bool
}

// e2RunCase runs the schedules [k*caseSize, ...) of the space and applies the oracles.
func e2RunCase(w *W, idx int, rs e2Resolved, k int, or e2Oracles) {
	caseID := fmt.Sprintf("E2:%s/snap=%v:case%d", rs.sp.Scenario, rs.sp.Snap, k)
	w.Begin(idx, caseID)
	lo := k * e2CaseSize
	hi := lo + e2CaseSize
	if hi > rs.n {
		hi = rs.n
	}
	rng := rand.New(rand.NewSource(w.Seed*2654435761 + int64(k)*40503 + int64(len(rs.sp.Scenario))))
	for i := lo; i < hi; i++ {
		var schedIdx *big.Int
		if rs.sp.Sample == 0 {
			schedIdx = big.NewInt(int64(i))
		} else {
			schedIdx = new(big.Int).Rand(rng, rs.total)
		}
		e2One(w, idx, caseID, rs, schedIdx, or)
	}
	if rs.sp.Sample == 0 {
		if k == 0 {
			w.Stat("exhaustive_spaces", 1)
			w.Note(fmt.Sprintf("scenario %s snap=%v: all %d interleavings of segment counts %v enumerated", rs.sp.Scenario, rs.sp.Snap, rs.n, rs.counts))
		}
	} else {
		w.Stat("nonexhaustive", 1)
		if k == 0 {
			w.Note(fmt.Sprintf("scenario %s snap=%v: %d of %s interleavings (segment counts %v), uniform seeded sample", rs.sp.Scenario, rs.sp.Snap, rs.n, rs.total.String(), rs.counts))
		}
	}
}

func e2One(w *W, idx int, caseID string, rs e2Resolved, schedIdx *big.Int, or e2Oracles) {
	seq := unrank(rs.counts, schedIdx)
	fb := 0
	r, problem := e2Execute(rs.sc, followChooser(seq, &fb))
	defer r.P.Close()
	replay := map[string]any{"idx": idx, "engine": "E2", "scenario": rs.sp.Scenario, "snap": rs.sp.Snap, "schedule_index": schedIdx.String(), "schedule": seq}
	w.Stat("schedules_executed", 1)
	w.Stat("commits_observed", int64(len(r.log)))
	if fb > 0 {
		w.Stat("schedule_fallbacks", 1)
	}
	if problem != "" {
		kind := "schedule"
		if r.sched.hung {
			kind = "hang"
		}
		w.Violate(idx, caseID, fmt.Sprintf("[%s] %s | %s", kind, problem, r.describe()), "", replay)
		return
	}
	for k, err := range r.errs {
		want := rs.sc.Writers[k[0]][k[1]].Abort
		if (err != nil) != want && !rs.sc.Keyed {
			w.Violate(idx, caseID, fmt.Sprintf("[txn] W%d.t%d returned %v | %s", k[0], k[1], err, r.describe()), "", replay)
			return
		}
	}
	keys := []string{"k", "a", "b", "c", "d"}
	if !rs.sc.Keyed {
		keys = nil
	}
	sv := r.M0.view(keys)
	final := dumpState(r.P, sv)
	w.Eval(hashOf(rs.sp.Scenario, rs.sp.Snap, fmt.Sprint(r.sched.Trace)), true)
	// how many block commit orders differ from task order: evidence of real reordering
	inversions := 0
	for _, ord := range r.applyOrder() {
		for i := 1; i < len(ord); i++ {
			if ord[i].Task < ord[i-1].Task {
				inversions++
			}
		}
	}
	if inversions > 0 {
		w.Stat("schedules_with_reordered_commits", 1)
	}
	if r.sc.Snap {
		tail := 0
		for _, c := range r.log {
			if c.Seq > r.snapCall && c.Seq < r.snapRet {
				tail++
			}
		}
		if tail > 0 {
			w.Stat("snapshots_overlapping_commits", 1)
		}
	}
	if or.stream {
		if d := r.oracleStream(); d != "" {
			w.Violate(idx, caseID, "[stream] "+d+" | "+r.describe(), "", replay)
			return
		}
	}
	if or.merges {
		if d := r.oracleMerges(final); d != "" {
			w.Violate(idx, caseID, "[merges] "+d+" | "+r.describe(), "", replay)
			return
		}
	}
	if or.keys {
		if d, kf := r.oracleKeys(final); d != "" {
			key := ""
			if kf {
				key = "KF-KEY-CHECK-THEN-ACT"
			}
			w.Violate(idx, caseID, "[keys] "+d+" | "+r.describe(), key, replay)
			if !kf {
				return
			}
		}
	}
	if or.snapshot && r.sc.Snap {
		if d, kf := r.oracleSnapshot(sv); d != "" {
			key := ""
			if kf {
				key = "KF-INFLIGHT-INSERT"
			}
			w.Violate(idx, caseID, "[snapshot] "+d+" | "+r.describe(), key, replay)
			if !kf {
				return
			}
		}
	}
	if or.replica {
		if d := r.oracleReplica(final, sv); d != "" {
			w.Violate(idx, caseID, "[replica] "+d+" | "+r.describe(), "", replay)
			return
		}
	}
	if schedIdx.Int64()%997 == 1 {
		w.Sample(map[string]any{"scenario": rs.sp.Scenario, "snap": rs.sp.Snap, "schedule": seq, "reached": r.sched.Points, "apply_order": r.log})
	}
}

// e2Phase builds a Plan + runner for a list of spaces.
type e2Phase struct {
	spaces []e2Space
	or     e2Oracles
}

func (p e2Phase) resolve() ([]e2Resolved, int) {
	var out []e2Resolved
	n := 0
	for _, sp := range p.spaces {
		r := e2Resolve(sp)
		out = append(out, r)
		n += r.cases
	}
	return out, n
}

func (p e2Phase) plan() Plan {
	_, n := p.resolve()
	return Plan{Cases: n, Workers: 16, MaxProcs: 1, Timeout: 60 * time.Minute, HangIsViol: true}
}

func (p e2Phase) run(w *W, idx int) {
	rs, _ := p.resolve()
	base := 0
	for _, r := range rs {
		if idx < base+r.cases {
			e2RunCase(w, idx, r, idx-base, p.or)
			return
		}
		base += r.cases
	}
}
