package main

// sched.go — controlled scheduler over the instrumentation hooks of /repo (build tag verif).
// Tasks are goroutines; exactly one runs at a time. A task parks at every lock-free hook point
// (and at explicit harness yield points) and the scheduler decides who continues. A schedule is
// therefore a replayable list of task choices.

import (
	"fmt"
	"math/big"
	"sync"
	"time"

	"github.com/kelindar/column"
)

// parkPoints are the hook points at which no lock is held (DESIGN.md 3.2).
var parkPoints = map[string]bool{
	"commit.beforeLatch": true, "commit.afterUnlatch": true,
	"snapshot.recorderOpen": true, "snapshot.beforeBlock": true, "snapshot.beforeRecorderClose": true, "snapshot.beforeCopy": true,
	"key.afterCheck": true, "harness.yield": true,
}

type schedEvent struct {
	task  int
	point string
	block uint32
	done  bool
	panic string
}

type schedTask struct {
	id     int
	fn     func(t *schedTask)
	resume chan struct{}
	done   bool
	s      *Sched
}

// Yield is an explicit harness-level yield point (e.g. between an insert and the end of the body).
func (t *schedTask) Yield(label string) { t.s.park(t.id, "harness.yield", 0) }

type Sched struct {
	coll    *column.Collection
	tasks   []*schedTask
	events  chan schedEvent
	current int // id of the running task, -1 when none
	mu      sync.Mutex
	Trace   []int    // task chosen at every decision
	Points  []string // what the chosen task then reached
	seq     int64    // global logical clock, advanced by Tick
	hung    bool
}

func newSched(c *column.Collection) *Sched {
	return &Sched{coll: c, events: make(chan schedEvent), current: -1}
}

func (s *Sched) Add(fn func(t *schedTask)) int {
	t := &schedTask{id: len(s.tasks), fn: fn, resume: make(chan struct{}), s: s}
	s.tasks = append(s.tasks, t)
	return t.id
}

// Tick returns the next value of the logical clock (only the running task calls it).
func (s *Sched) Tick() int64 {
	s.mu.Lock()
	s.seq++
	v := s.seq
	s.mu.Unlock()
	return v
}

func (s *Sched) Current() int {
	s.mu.Lock()
	defer s.mu.Unlock()
	return s.current
}

func (s *Sched) park(task int, point string, block uint32) {
	s.events <- schedEvent{task: task, point: point, block: block}
	<-s.tasks[task].resume
}

// hook is installed as column.VerifHook while the schedule runs.
func (s *Sched) hook(point string, c *column.Collection, block uint32) {
	if c != s.coll || !parkPoints[point] {
		return
	}
	cur := s.Current()
	if cur < 0 {
		return // not a scheduled task (set-up, replica replay, ...)
	}
	s.park(cur, point, block)
}

// Run executes the tasks under the chooser: choose(runnable task ids, decision number) -> task id.
// It returns "" or a description of a step that never completed.
func (s *Sched) Run(choose func(runnable []int, decision int) int, stepTimeout time.Duration) string {
	hook := s.hook
	column.VerifHook.Store(&hook)
	defer column.VerifHook.Store(nil)
	for _, t := range s.tasks {
		t := t
		go func() {
			<-t.resume
			defer func() {
				if p := recover(); p != nil {
					s.events <- schedEvent{task: t.id, done: true, panic: fmt.Sprintf("%v", p)}
					return
				}
				s.events <- schedEvent{task: t.id, done: true}
			}()
			t.fn(t)
		}()
	}
	remaining := len(s.tasks)
	for decision := 0; remaining > 0; decision++ {
		var runnable []int
		for _, t := range s.tasks {
			if !t.done {
				runnable = append(runnable, t.id)
			}
		}
		pick := choose(runnable, decision)
		ok := false
		for _, r := range runnable {
			if r == pick {
				ok = true
			}
		}
		if !ok {
			pick = runnable[0]
		}
		s.mu.Lock()
		s.current = pick
		s.mu.Unlock()
		s.Trace = append(s.Trace, pick)
		s.tasks[pick].resume <- struct{}{}
		select {
		case ev := <-s.events:
			s.mu.Lock()
			s.current = -1
			s.mu.Unlock()
			if ev.task != pick {
				return fmt.Sprintf("scheduler: event from task %d while task %d was running", ev.task, pick)
			}
			if ev.done {
				s.tasks[pick].done = true
				remaining--
				s.Points = append(s.Points, "end")
				if ev.panic != "" {
					return "PANIC in task " + fmt.Sprint(pick) + ": " + ev.panic
				}
			} else {
				s.Points = append(s.Points, fmt.Sprintf("%s/%d", ev.point, ev.block))
			}
		case <-time.After(stepTimeout):
			s.hung = true
			return fmt.Sprintf("HANG: task %d did not reach its next yield point or its end within %s after decision %d (trace %v)", pick, stepTimeout, decision, s.Trace)
		}
	}
	return ""
}

// ---------------------------------------------------------------------------------------------
// Static interleaving enumeration: all sequences over tasks with given segment counts

func multinomial(counts []int) *big.Int {
	n := 0
	res := big.NewInt(1)
	for _, c := range counts {
		for i := 1; i <= c; i++ {
			n++
			res.Mul(res, big.NewInt(int64(n)))
			res.Div(res, big.NewInt(int64(i)))
		}
	}
	return res
}

// unrank returns the idx-th interleaving (lexicographic over task ids) of segments with the given counts.
func unrank(counts []int, idx *big.Int) []int {
	c := append([]int(nil), counts...)
	total := 0
	for _, x := range c {
		total += x
	}
	i := new(big.Int).Set(idx)
	out := make([]int, 0, total)
	for pos := 0; pos < total; pos++ {
		for t := range c {
			if c[t] == 0 {
				continue
			}
			c[t]--
			n := multinomial(c)
			if i.Cmp(n) < 0 {
				out = append(out, t)
				break
			}
			i.Sub(i, n)
			c[t]++
		}
	}
	return out
}

// followChooser follows a precomputed sequence; when the sequence names a finished task or is
// exhausted it falls back to the lowest runnable task and counts the fallback.
func followChooser(seq []int, fallbacks *int) func([]int, int) int {
	pos := 0
	return func(runnable []int, decision int) int {
		for pos < len(seq) {
			t := seq[pos]
			pos++
			for _, r := range runnable {
				if r == t {
					return t
				}
			}
			*fallbacks++
		}
		*fallbacks++
		return runnable[0]
	}
}
