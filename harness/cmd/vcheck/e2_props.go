package main

// e2_props.go — properties decided (partly) by the controlled-schedule monitor.

type multiPhase struct {
	plans []func(tier string) Plan
	runs  []func(w *W, idx int)
}

func (m *multiPhase) add(plan func(string) Plan, run func(w *W, idx int)) {
	m.plans = append(m.plans, plan)
	m.runs = append(m.runs, run)
}

func (m *multiPhase) Plan(tier string) []Plan {
	out := make([]Plan, len(m.plans))
	for i, p := range m.plans {
		out[i] = p(tier)
	}
	return out
}

func (m *multiPhase) Run(w *W, phase, idx int) { m.runs[phase](w, idx) }

func sp(name string, snap bool, sample int) e2Space {
	return e2Space{Scenario: name, Snap: snap, Sample: sample}
}

func e2Spaces(prop, tier string) []e2Space {
	th := tier == "thorough"
	pick := func(q, t int) int {
		if th {
			return t
		}
		return q
	}
	switch prop {
	case "C06":
		return []e2Space{sp("2blk", false, 0), sp("2blk2", false, 0), sp("2blk-desc", false, 0), sp("2w1b", false, 0), sp("3w", false, 0), sp("del", false, 0), sp("ins", false, 0), sp("ins-empty", false, 0), sp("abort", false, 0),
			sp("2w1b-3txn", false, 0), sp("big", false, pick(1500, 40000))}
	case "C08":
		return []e2Space{sp("2w1b", true, 0), sp("2blk", true, pick(1500, 40000)), sp("del", true, pick(1000, 30000)), sp("ins", true, pick(1000, 30000)), sp("ins-empty", true, pick(600, 0)),
			sp("abort", true, pick(500, 10000)), sp("2w1b-3txn", true, pick(1500, 0)), sp("big", true, pick(500, 20000))}
	case "C09":
		return []e2Space{sp("3w", false, 0), sp("2w1b", false, 0), sp("2blk2", false, 0), sp("2blk-desc", false, 0), sp("2w1b-3txn", false, 0), sp("3w", true, pick(1500, 30000)), sp("big", false, pick(1500, 40000))}
	case "C15":
		return []e2Space{sp("2w1b", false, 0), sp("2blk", false, 0), sp("2blk2", false, 0), sp("2blk-desc", false, 0), sp("3w", false, 0), sp("abort", false, 0), sp("ins", false, 0), sp("del", false, 0),
			sp("2w1b-3txn", false, 0), sp("big", false, pick(1500, 40000)),
			// the stream must not depend on a snapshot being in progress
			sp("2w1b", true, pick(2000, 0)), sp("2blk", true, pick(1000, 20000)), sp("del", true, pick(500, 10000))}
	case "C12":
		return []e2Space{sp("key-ins-ins", false, 0), sp("key-ups-ups", false, 0), sp("key-ins-ups-other", false, 0)}
	}
	return nil
}

func e2PhaseFor(prop string, or e2Oracles) (func(string) Plan, func(*W, int)) {
	return func(tier string) Plan { return e2Phase{e2Spaces(prop, tier), or}.plan() },
		func(w *W, idx int) { e2Phase{e2Spaces(prop, w.Tier), or}.run(w, idx) }
}
