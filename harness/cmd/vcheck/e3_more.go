package main

// e3_more.go — E3 parallel stress for C09 (linearizability of merges, porcupine) and C11
// (concurrent inserts never collide, reused offsets carry no stale data).

import (
	"bytes"
	"fmt"
	"runtime"
	"strconv"
	"sync"
	"sync/atomic"
	"time"

	"github.com/anishathalye/porcupine"
	"github.com/kelindar/column"
	"github.com/kelindar/column/commit"
)

// ---------------------------------------------------------------------------------------------
// C09: recorded per-row histories of merge / put / read, checked against a sequential register

type regIn struct {
	Row uint32
	Op  int // 0 read, 1 merge, 2 put
	Arg int64
}

var regModel = porcupine.Model{
	Partition: func(history []porcupine.Operation) [][]porcupine.Operation {
		by := map[uint32][]porcupine.Operation{}
		var keys []uint32
		for _, op := range history {
			k := op.Input.(regIn).Row
			if _, ok := by[k]; !ok {
				keys = append(keys, k)
			}
			by[k] = append(by[k], op)
		}
		out := make([][]porcupine.Operation, 0, len(keys))
		for _, k := range keys {
			out = append(out, by[k])
		}
		return out
	},
	Init: func() interface{} { return int64(0) },
	Step: func(state, input, output interface{}) (bool, interface{}) {
		in := input.(regIn)
		st := state.(int64)
		switch in.Op {
		case 1:
			return true, st + in.Arg
		case 2:
			return true, in.Arg
		}
		return output.(int64) == st, st
	},
	DescribeOperation: func(input, output interface{}) string {
		in := input.(regIn)
		switch in.Op {
		case 1:
			return fmt.Sprintf("merge(row %d, +%d)", in.Row, in.Arg)
		case 2:
			return fmt.Sprintf("put(row %d, %d)", in.Row, in.Arg)
		}
		return fmt.Sprintf("read(row %d) -> %d", in.Row, output.(int64))
	},
}

func mergeLinRound(w *W, idx int) {
	caseID := fmt.Sprintf("E3:merge-linearizability:round%d", idx)
	w.Begin(idx, caseID)
	c := column.NewCollection(column.Options{Capacity: 64, Vacuum: 1 << 40})
	defer c.Close()
	c.CreateColumn("m", column.ForInt64())
	c.CreateColumn("x", column.ForInt64())
	c.CreateIndex("big", "m", func(r column.Reader) bool { return r.Int() > 1000 })
	// 12 rows in two blocks (block 1 through Replay)
	rows := []uint32{}
	for i := 0; i < 6; i++ {
		off, _ := c.Insert(func(r column.Row) error { r.SetInt64("m", 0); return nil })
		rows = append(rows, off)
	}
	var b1rows []uint32
	for i := uint32(0); i < 6; i++ {
		b1rows = append(b1rows, 16384+i*3)
	}
	if err := c.Replay(setupCommit(1, b1rows, false)); err != nil {
		panic(err)
	}
	rows = append(rows, b1rows...)
	hook := &stressHook{delayPct: 25, seed: w.Seed + int64(idx)}
	hook.install(c)
	defer hook.remove()

	const clients = 8
	opsPer := 60 // at most ~40 operations per row
	var clock int64
	var mu sync.Mutex
	var history []porcupine.Operation
	bit := make([]int64, len(rows)) // per row: next unused bit, so the value names the merges it contains
	var fns []func()
	for ci := 0; ci < clients; ci++ {
		ci := ci
		fns = append(fns, func() {
			rng := rngFor(w.Seed, 40, idx, ci)
			for n := 0; n < opsPer; n++ {
				ri := rng.Intn(len(rows))
				row := rows[ri]
				in := regIn{Row: row}
				x := rng.Intn(10)
				var out int64
				switch {
				case x < 6:
					k := atomic.AddInt64(&bit[ri], 1) - 1
					if k > 55 {
						in.Op = 0
					} else {
						in.Op, in.Arg = 1, int64(1)<<uint(k)
					}
				case x < 7:
					in.Op, in.Arg = 2, int64(rng.Intn(5))<<57 // overwrites keep the high bits only: merges stay distinguishable
				}
				call := atomic.AddInt64(&clock, 1)
				switch in.Op {
				case 1:
					if rng.Intn(3) == 0 {
						// the merge rides in a transaction that also touches another row
						other := rows[rng.Intn(len(rows))]
						c.Query(func(txn *column.Txn) error {
							txn.QueryAt(row, func(r column.Row) error { r.MergeInt64("m", in.Arg); return nil })
							txn.QueryAt(other, func(r column.Row) error { r.SetInt64("x", int64(n)); return nil })
							return nil
						})
					} else {
						c.QueryAt(row, func(r column.Row) error { r.MergeInt64("m", in.Arg); return nil })
					}
				case 2:
					c.QueryAt(row, func(r column.Row) error { r.SetInt64("m", in.Arg); return nil })
				default:
					c.QueryAt(row, func(r column.Row) error { out, _ = r.Int64("m"); return nil })
				}
				ret := atomic.AddInt64(&clock, 1)
				mu.Lock()
				history = append(history, porcupine.Operation{ClientId: ci, Input: in, Call: call, Output: out, Return: ret})
				mu.Unlock()
			}
		})
	}
	parallel(fns...)
	// final reads after all writers joined
	for _, row := range rows {
		var out int64
		call := atomic.AddInt64(&clock, 1)
		c.QueryAt(row, func(r column.Row) error { out, _ = r.Int64("m"); return nil })
		ret := atomic.AddInt64(&clock, 1)
		history = append(history, porcupine.Operation{ClientId: clients, Input: regIn{Row: row}, Call: call, Output: out, Return: ret})
	}
	res, info := porcupine.CheckOperationsVerbose(regModel, history, 60*time.Second)
	w.Stat("linearizability_histories", 1)
	w.Stat("linearizability_operations", int64(len(history)))
	w.Eval(hashOf("lin", idx, len(history)), true)
	switch res {
	case porcupine.Unknown:
		w.Inconclusive(caseID, "porcupine timed out after 60 s")
	case porcupine.Illegal:
		// describe the offending partition: the shortest row history that is not linearizable
		detail := "history of merges/puts/reads on one row is not linearizable against a sequential register"
		parts := regModel.Partition(history)
		for _, p := range parts {
			if r, _ := porcupine.CheckOperationsVerbose(regModel, p, 10*time.Second); r == porcupine.Illegal {
				detail += fmt.Sprintf("; row %d (%d operations): ", p[0].Input.(regIn).Row, len(p))
				for i, op := range p {
					if i > 30 {
						detail += "..."
						break
					}
					detail += fmt.Sprintf("[c%d %d-%d %s] ", op.ClientId, op.Call, op.Return, regModel.DescribeOperation(op.Input, op.Output))
				}
				break
			}
		}
		_ = info
		w.Violate(idx, caseID, "[linearizability] "+detail, "", map[string]any{"idx": idx, "race": true, "engine": "E3"})
	}
	if idx == 0 {
		n := len(history)
		if n > 6 {
			n = 6
		}
		var ops []string
		for _, op := range history[:n] {
			ops = append(ops, fmt.Sprintf("c%d [%d,%d] %s", op.ClientId, op.Call, op.Return, regModel.DescribeOperation(op.Input, op.Output)))
		}
		w.Sample(map[string]any{"round": idx, "clients": clients, "rows": len(rows), "operations": len(history), "first_operations": ops})
	}
}

// ---------------------------------------------------------------------------------------------
// C11: concurrent inserts and deletes with an ownership table

func insertRound(w *W, idx int) {
	caseID := fmt.Sprintf("E3:insert-ownership:round%d", idx)
	w.Begin(idx, caseID)
	caps := []int{64, 1000, 16385}
	c := stressCollection(caps[idx%len(caps)], false)
	defer c.Close()
	hook := &stressHook{delayPct: 10, seed: w.Seed + int64(idx)}
	hook.install(c)
	defer hook.remove()
	// pre-fill so that reuse happens around word and block boundaries
	pre := []int{0, 100, 16300, 16500}[idx%4]
	var owners sync.Map // offset -> stamp of the live row / in-flight insert
	c.Query(func(txn *column.Txn) error {
		for i := 0; i < pre; i++ {
			txn.Insert(func(r column.Row) error {
				r.SetInt64("a", -1)
				owners.Store(r.Index(), int64(-1))
				return nil
			})
		}
		return nil
	})
	const workers = 16
	per := scale(w, 250, 700)
	var collisions, inserts, deletes, rollbacks, readbacks, stale int64
	var first atomic.Value
	bad := func(counter *int64, msg string) {
		if atomic.AddInt64(counter, 1) == 1 && first.Load() == nil {
			first.Store(msg)
		}
	}
	var fns []func()
	for wi := 0; wi < workers; wi++ {
		wi := wi
		fns = append(fns, func() {
			rng := rngFor(w.Seed, 50, idx, wi)
			type mineRow struct {
				off   uint32
				stamp int64
				full  bool
			}
			var mine []mineRow
			for n := 0; n < per; n++ {
				var added []mineRow
				var removed []mineRow
				abort := rng.Intn(8) == 0
				failing := rng.Intn(15) == 0
				k := 1 + rng.Intn(4)
				err := c.Query(func(txn *column.Txn) error {
					if len(mine) > 6 && rng.Intn(2) == 0 {
						for j := 0; j < 3; j++ {
							r := mine[len(mine)-1-j]
							owners.Delete(r.off) // cleared before the delete is issued: legitimate fast reuse is never a collision
							txn.DeleteAt(r.off)
							removed = append(removed, r)
						}
					}
					for j := 0; j < k; j++ {
						stamp := int64(wi+1)<<40 | int64(n)<<8 | int64(j)
						full := rng.Intn(2) == 0
						failNow := failing && j == k-1
						_, err := txn.Insert(func(r column.Row) error {
							off := r.Index()
							if prev, loaded := owners.LoadOrStore(off, stamp); loaded {
								bad(&collisions, fmt.Sprintf("insert by worker %d received offset %d which is held by stamp %d (live row or in-flight insert)", wi, off, prev))
							}
							// the new row is empty already inside the callback (the callback runs under the block's read
							// latch: a delete that freed the offset has finished cleaning the columns)
							if a, okA := r.Int64("a"); okA {
								bad(&stale, fmt.Sprintf("inside its insert callback the new row %d (worker %d) reads a=%d: the value of a previous occupant", off, wi, a))
							} else if s, okS := r.String("s"); okS {
								bad(&stale, fmt.Sprintf("inside its insert callback the new row %d (worker %d) reads s=%q: the value of a previous occupant", off, wi, s))
							} else if _, okM := r.Int64("m"); okM || r.Bool("b") {
								bad(&stale, fmt.Sprintf("inside its insert callback the new row %d (worker %d) exposes m or b of a previous occupant", off, wi))
							}
							r.SetInt64("a", stamp)
							r.SetUint32("u", uint32(stamp))
							if full {
								r.SetString("s", strconv.FormatInt(stamp, 36))
								r.SetEnum("e", enumTags[stamp&63])
								r.SetFloat64("f", 1.5)
								r.SetBool("b", true)
								r.MergeInt64("m", 7)
							}
							if failNow {
								owners.Delete(off) // the failing insert frees its offset when the callback returns
								return errInjected
							}
							added = append(added, mineRow{off, stamp, full})
							return nil
						})
						if err != nil {
							for _, r := range added {
								owners.Delete(r.off) // released by rollback after the body returns
							}
							added = nil
							return err
						}
					}
					atomic.AddInt64(&inserts, int64(k))
					if abort {
						for _, r := range added {
							owners.Delete(r.off) // released by rollback after the body returns
						}
						return errAbort
					}
					return nil
				})
				if err != nil {
					atomic.AddInt64(&rollbacks, 1)
					for _, r := range removed { // the deletes did not happen: the rows are still live and ours
						owners.Store(r.off, r.stamp)
					}
					continue
				}
				mine = mine[:len(mine)-len(removed)]
				atomic.AddInt64(&deletes, int64(len(removed)))
				mine = append(mine, added...)
				// read back own rows: both inserts intact, nothing but own values
				for _, r := range added {
					c.QueryAt(r.off, func(row column.Row) error {
						atomic.AddInt64(&readbacks, 1)
						a, okA := row.Int64("a")
						u, okU := row.Uint32("u")
						if !okA || !okU || a != r.stamp || u != uint32(r.stamp) {
							bad(&collisions, fmt.Sprintf("row %d inserted by worker %d with stamp %d reads a=(%d,%v) u=(%d,%v): overwritten by another insert", r.off, wi, r.stamp, a, okA, u, okU))
						}
						s, okS := row.String("s")
						e, okE := row.Enum("e")
						_, okF := row.Float64("f")
						m, okM := row.Int64("m")
						b := row.Bool("b")
						if r.full {
							if !okS || s != strconv.FormatInt(r.stamp, 36) || !okE || e != enumTags[r.stamp&63] || !okF || !b || !okM || m != 7 {
								bad(&stale, fmt.Sprintf("row %d (stamp %d) does not read back what its insert stored: s=(%q,%v) e=(%q,%v) f ok=%v b=%v m=(%d,%v)", r.off, r.stamp, s, okS, e, okE, okF, b, m, okM))
							}
						} else if okS || okE || okF || b || okM {
							bad(&stale, fmt.Sprintf("row %d (stamp %d) stored only a and u but exposes s=(%q,%v) e=(%q,%v) f ok=%v b=%v m=(%d,%v): data of a previous occupant", r.off, r.stamp, s, okS, e, okE, okF, b, m, okM))
						}
						return nil
					})
				}
			}
		})
	}
	parallel(fns...)
	// census at quiescence
	owned := 0
	owners.Range(func(k, v any) bool { owned++; return true })
	live := 0
	extra := ""
	c.Query(func(txn *column.Txn) error {
		if txn.Count() != c.Count() {
			extra = fmt.Sprintf("Txn.Count()=%d Collection.Count()=%d", txn.Count(), c.Count())
		}
		return txn.Range(func(i uint32) {
			live++
			if _, ok := owners.Load(i); !ok && extra == "" {
				extra = fmt.Sprintf("row %d is live but nobody owns it", i)
			}
		})
	})
	replay := map[string]any{"idx": idx, "race": true, "engine": "E3"}
	if collisions > 0 {
		w.Violate(idx, caseID, fmt.Sprintf("[collision] %d collisions; first: %v", collisions, first.Load()), "", replay)
	} else if stale > 0 {
		w.Violate(idx, caseID, fmt.Sprintf("[stale] %d rows; first: %v", stale, first.Load()), "", replay)
	} else if c.Count() != owned || live != owned || extra != "" {
		w.Violate(idx, caseID, fmt.Sprintf("[census] after all transactions finished: Count()=%d, rows visited=%d, rows owned by the workers=%d %s", c.Count(), live, owned, extra), "", replay)
	}
	w.Stat("stress_inserts", inserts)
	w.Stat("stress_deletes", deletes)
	w.Stat("stress_rollbacks", rollbacks)
	w.Stat("stress_readbacks", readbacks)
	w.Stat("stress_rounds", 1)
	w.Eval(hashOf("ins", idx, inserts), inserts > 100)
	if idx == 0 {
		w.Sample(map[string]any{"round": idx, "workers": workers, "txns_per_worker": per, "inserts": inserts, "deletes": deletes, "rollbacks": rollbacks, "readbacks": readbacks, "live_at_end": live})
	}
}

func racePlan(quick, thorough int) func(string) Plan {
	return func(tier string) Plan {
		n := quick
		if tier == "thorough" {
			n = thorough
		}
		return Plan{Cases: n, Workers: 2, Race: true, MaxProcs: 8, Timeout: 40 * time.Minute, HangIsViol: true}
	}
}

// ---------------------------------------------------------------------------------------------
// C03: an index created while writers commit must equal its predicate once they are done

var ixCounters = [3]uint32{1, 16384 + 1, 32768 + 1}

func indexBuildRound(w *W, idx int) {
	caseID := fmt.Sprintf("E3:index-build-beside-writers:round%d", idx)
	w.Begin(idx, caseID)
	c := stressCollection(64, false)
	defer c.Close()
	hook := &stressHook{delayPct: 20, seed: w.Seed + int64(idx)}
	hook.install(c)
	defer hook.remove()
	const rows = 34000
	c.Query(func(txn *column.Txn) error {
		for i := 0; i < rows; i++ {
			txn.Insert(func(r column.Row) error { r.SetInt64("a", int64(i%7)-3); r.SetString("s", "x"); return nil })
		}
		return nil
	})
	var left int32 = 6
	per := scale(w, 600, 2000)
	var counted [3]int64
	for _, off := range ixCounters {
		c.QueryAt(off, func(r column.Row) error { r.SetInt64("a", 0); return nil })
	}
	var commitsDuringBuild int64
	var building int32
	var fns []func()
	for wi := 0; wi < 6; wi++ {
		wi := wi
		fns = append(fns, func() {
			defer atomic.AddInt32(&left, -1)
			rng := rngFor(w.Seed, 60, idx, wi)
			for n := 0; n < per; n++ {
				c.Query(func(txn *column.Txn) error {
					// one counted merge into the counter row of a block: column a is the one being indexed, every
					// committed +1000 must be in the counter at the end (C09), whatever the registry was doing
					cb := n % 3
					txn.QueryAt(ixCounters[cb], func(r column.Row) error { r.MergeInt64("a", 1000); return nil })
					atomic.AddInt64(&counted[cb], 1)
					for j := 0; j < 6; j++ {
						off := uint32(rng.Intn(rows))
						if off == ixCounters[0] || off == ixCounters[1] || off == ixCounters[2] {
							continue
						}
						txn.QueryAt(off, func(r column.Row) error {
							switch rng.Intn(4) {
							case 0:
								r.MergeInt64("a", int64(rng.Intn(7)-3)) // moves the value across the threshold by merge
							case 1:
								r.SetString("s", []string{"x", "yy", ""}[rng.Intn(3)])
							default:
								r.SetInt64("a", int64(rng.Intn(9)-4))
							}
							return nil
						})
					}
					if n%50 == 0 {
						txn.Insert(func(r column.Row) error { r.SetInt64("a", -1); return nil }) // grows into new words of the index
					}
					return nil
				})
				if atomic.LoadInt32(&building) > 0 {
					atomic.AddInt64(&commitsDuringBuild, 1)
				}
			}
		})
	}
	built := 0
	fns = append(fns, func() {
		for i := 0; i < 8 && atomic.LoadInt32(&left) > 0; i++ {
			time.Sleep(time.Duration(1+i) * time.Millisecond)
			atomic.StoreInt32(&building, 1)
			c.CreateIndex(fmt.Sprintf("neg%d", i), "a", func(r column.Reader) bool { return r.Int() < 0 })
			c.CreateIndex(fmt.Sprintf("long%d", i), "s", func(r column.Reader) bool { return len(r.String()) > 1 })
			c.CreateSortIndex(fmt.Sprintf("by_s%d", i), "s")
			c.CreateIndex("churn", "a", func(r column.Reader) bool { return r.Int() > 2 })
			c.CreateTrigger("churn_tg", "a", func(column.Reader) {})
			c.DropIndex("churn")
			c.DropTrigger("churn_tg")
			atomic.StoreInt32(&building, 0)
			built++
		}
	})
	parallel(fns...)
	// quiescent: every index equals its predicate over the current values
	bad := ""
	checked := 0
	for b, off := range ixCounters {
		c.QueryAt(off, func(r column.Row) error {
			if v, ok := r.Int64("a"); !ok || v != 1000*atomic.LoadInt64(&counted[b]) {
				bad = fmt.Sprintf("counter row %d (block %d) of column a, on which indexes were being created and dropped: %d transactions each merged +1000 and committed, the row reads (%d,%v)", off, b, atomic.LoadInt64(&counted[b]), v, ok)
			}
			return nil
		})
	}
	w.Stat("stress_counted_merges_beside_index_builds", counted[0]+counted[1]+counted[2])
	c.Query(func(txn *column.Txn) error {
		a, s := txn.Int64("a"), txn.String("s")
		for i := 0; i < built && bad == ""; i++ {
			neg, long := fmt.Sprintf("neg%d", i), fmt.Sprintf("long%d", i)
			nb, lb := txn.Bool(neg), txn.Bool(long)
			txn.Range(func(off uint32) {
				checked++
				av, aok := a.Get()
				sv, sok := s.Get()
				if got, want := nb.Get(), aok && av < 0; got != want && bad == "" {
					bad = fmt.Sprintf("index %s (a < 0) created while writers were committing: row %d holds a=(%d,%v) but the index says %v", neg, off, av, aok, got)
				}
				if got, want := lb.Get(), sok && len(sv) > 1; got != want && bad == "" {
					bad = fmt.Sprintf("index %s (len(s) > 1) created while writers were committing: row %d holds s=(%q,%v) but the index says %v", long, off, sv, sok, got)
				}
			})
		}
		return nil
	})
	// ... and every sorted index visits exactly the rows holding a value, in non-decreasing order of the values
	ascended := 0
	for i := 0; i < built && bad == ""; i++ {
		name := fmt.Sprintf("by_s%d", i)
		c.Query(func(txn *column.Txn) error {
			s := txn.String("s")
			holding := 0
			txn.With("s").Range(func(uint32) { holding++ })
			seen := map[uint32]bool{}
			last, first := "", true
			txn.Ascend(name, func(off uint32) {
				ascended++
				v, ok := s.Get()
				switch {
				case bad != "":
				case seen[off]:
					bad = fmt.Sprintf("sorted index %s created while writers were committing: row %d visited twice", name, off)
				case !ok:
					bad = fmt.Sprintf("sorted index %s created while writers were committing: visits row %d which holds no value", name, off)
				case !first && v < last:
					bad = fmt.Sprintf("sorted index %s created while writers were committing: row %d holding %q visited after a row holding %q", name, off, v, last)
				}
				seen[off] = true
				last, first = v, false
			})
			if bad == "" && len(seen) != holding {
				bad = fmt.Sprintf("sorted index %s created while writers were committing: visits %d rows, %d rows hold a value", name, len(seen), holding)
			}
			return nil
		})
	}
	w.Stat("stress_sorted_index_rows_visited", int64(ascended))
	w.Stat("ascend_rows", int64(ascended))
	w.Stat("stress_indexes_built_beside_writers", int64(2*built))
	w.Stat("stress_commits_while_an_index_was_being_built", commitsDuringBuild)
	w.Stat("stress_index_bits_checked", int64(checked))
	w.Stat("stress_rounds", 1)
	w.Eval(hashOf("ixbuild", idx, built, commitsDuringBuild), built > 0)
	if bad != "" {
		w.Violate(idx, caseID, "[index] "+bad, "", map[string]any{"idx": idx, "race": true, "engine": "E3"})
	}
	if idx == 0 {
		w.Sample(map[string]any{"round": idx, "writers": 6, "txns_per_writer": per, "indexes_built": 2 * built, "commits_during_builds": commitsDuringBuild, "bits_checked": checked})
	}
}

// ---------------------------------------------------------------------------------------------
// C12: workers on disjoint key sets share one key table; every result must follow a per-worker map

func keyMapRound(w *W, idx int) {
	caseID := fmt.Sprintf("E3:key-map:round%d", idx)
	w.Begin(idx, caseID)
	c := stressCollection(64, true)
	defer c.Close()
	hook := &stressHook{delayPct: 10, seed: w.Seed + int64(idx)}
	hook.install(c)
	defer hook.remove()
	const workers = 12
	per := scale(w, 1500, 5000)
	var ops int64
	var first atomic.Value
	var fns []func()
	for wi := 0; wi < workers; wi++ {
		wi := wi
		fns = append(fns, func() {
			rng := rngFor(w.Seed, 61, idx, wi)
			mine := map[string]int64{} // key -> value last committed
			fail := func(msg string) {
				if first.Load() == nil {
					first.Store(msg)
				}
			}
			for n := 0; n < per && first.Load() == nil; n++ {
				key := fmt.Sprintf("w%d-%d", wi, rng.Intn(24))
				_, has := mine[key]
				val := int64(wi)<<32 | int64(n)
				atomic.AddInt64(&ops, 1)
				switch rng.Intn(6) {
				case 0:
					err := c.InsertKey(key, func(r column.Row) error { r.SetInt64("a", val); return nil })
					if (err != nil) != has {
						fail(fmt.Sprintf("InsertKey(%q) returned %v, key present in this worker's map: %v", key, err, has))
					}
					if err == nil {
						mine[key] = val
					}
				case 1:
					err := c.DeleteKey(key)
					if (err == nil) != has {
						fail(fmt.Sprintf("DeleteKey(%q) returned %v, key present: %v", key, err, has))
					}
					delete(mine, key)
				case 2:
					var got int64
					var gk string
					err := c.QueryKey(key, func(r column.Row) error { got, _ = r.Int64("a"); gk, _ = r.Key(); return nil })
					if (err == nil) != has {
						fail(fmt.Sprintf("QueryKey(%q) returned %v, key present: %v", key, err, has))
					} else if err == nil && (got != mine[key] || gk != key) {
						fail(fmt.Sprintf("QueryKey(%q) reached a row with key %q and value %d, expected value %d", key, gk, got, mine[key]))
					}
				case 3:
					if has { // re-key to another absent key of this worker
						nk := fmt.Sprintf("w%d-%d", wi, 24+rng.Intn(24))
						if _, taken := mine[nk]; !taken {
							c.QueryKey(key, func(r column.Row) error { r.SetKey(nk); return nil })
							mine[nk] = mine[key]
							delete(mine, key)
						}
					}
				default:
					err := c.UpsertKey(key, func(r column.Row) error { r.SetInt64("a", val); return nil })
					if err != nil {
						fail(fmt.Sprintf("UpsertKey(%q) failed: %v", key, err))
					}
					mine[key] = val
				}
			}
			// final: exactly this worker's keys resolve
			for key, val := range mine {
				var got int64
				if err := c.QueryKey(key, func(r column.Row) error { got, _ = r.Int64("a"); return nil }); err != nil || got != val {
					fail(fmt.Sprintf("at the end QueryKey(%q) = (%d, %v), expected %d", key, got, err, val))
				}
			}
			for i := 0; i < 48; i++ {
				key := fmt.Sprintf("w%d-%d", wi, i)
				if _, has := mine[key]; !has {
					if err := c.QueryKey(key, func(r column.Row) error { return nil }); err == nil {
						fail(fmt.Sprintf("at the end QueryKey(%q) resolves although the key was deleted or re-keyed", key))
					}
				}
			}
		})
	}
	parallel(fns...)
	// one live row per key
	seen := map[string]uint32{}
	dup := ""
	c.Query(func(txn *column.Txn) error {
		return txn.Range(func(off uint32) {
			txn.QueryAt(off, func(r column.Row) error {
				if k, ok := r.Key(); ok {
					if prev, d := seen[k]; d && dup == "" {
						dup = fmt.Sprintf("rows %d and %d both hold key %q", prev, off, k)
					}
					seen[k] = off
				}
				return nil
			})
		})
	})
	w.Stat("stress_key_operations", ops)
	w.Stat("stress_rounds", 1)
	w.Eval(hashOf("keymap", idx, ops), ops > 100)
	if msg := first.Load(); msg != nil {
		w.Violate(idx, caseID, "[keys] "+msg.(string), "", map[string]any{"idx": idx, "race": true, "engine": "E3"})
	} else if dup != "" {
		w.Violate(idx, caseID, "[keys] "+dup, "", map[string]any{"idx": idx, "race": true, "engine": "E3"})
	}
	if idx == 0 {
		w.Sample(map[string]any{"round": idx, "workers": workers, "ops_per_worker": per, "key_operations": ops, "live_keys_at_end": len(seen)})
	}
}

// ---------------------------------------------------------------------------------------------
// C19: a trigger that stays registered is called exactly once per committed store, also while
// other triggers on the same column are created and dropped beside the commits

// triggerDropDuringCommit forces the one schedule a random drop rarely hits: the commit is inside
// the callback of the first trigger of a column when another goroutine drops that trigger; the
// triggers behind it must still be called exactly once for that store.
// triggerChangedWhileTxnOpen: a transaction has already touched the watched column (read and buffered
// a store) when, from another goroutine, one trigger on that column is created and another dropped;
// both calls return before the transaction body does. The commit happens after both: the new trigger
// must be told every store and the row delete of that commit, the dropped one nothing.
func triggerChangedWhileTxnOpen(w *W, idx int, caseID string) {
	c := stressCollection(64, false)
	defer c.Close()
	var offs []uint32
	c.Query(func(txn *column.Txn) error {
		for i := 0; i < 4; i++ {
			off, _ := txn.Insert(func(r column.Row) error { r.SetInt64("a", 1); r.SetInt64("m", 1); return nil })
			offs = append(offs, off)
		}
		return nil
	})
	// a row in block 1
	{
		mkb := func(name string) *commit.Buffer { b := commit.NewBuffer(64); b.Reset(name); return b }
		rb, ab := mkb("row"), mkb("a")
		rb.PutOperation(commit.Insert, 16384+9)
		ab.PutInt64(commit.Put, 16384+9, 1)
		if err := c.Replay(commit.Commit{ID: 1, Chunk: 1, Updates: []*commit.Buffer{rb, ab}}); err != nil {
			panic(err)
		}
		offs = append(offs, 16384+9)
	}
	var oldPuts, oldDels, newPuts, newDels int32
	c.CreateTrigger("old", "a", func(r column.Reader) {
		if r.IsDelete() {
			atomic.AddInt32(&oldDels, 1)
		} else {
			atomic.AddInt32(&oldPuts, 1)
		}
	})
	touched, changed := make(chan struct{}), make(chan struct{})
	go func() {
		<-touched
		c.CreateTrigger("new", "a", func(r column.Reader) {
			if r.IsDelete() {
				atomic.AddInt32(&newDels, 1)
			} else {
				atomic.AddInt32(&newPuts, 1)
			}
		})
		c.DropTrigger("old")
		close(changed)
	}()
	c.Query(func(txn *column.Txn) error {
		txn.QueryAt(offs[0], func(r column.Row) error { r.SetInt64("a", 10); return nil })
		close(touched)
		<-changed // both schema calls have returned
		txn.QueryAt(offs[1], func(r column.Row) error { r.MergeInt64("a", 5); return nil })
		txn.QueryAt(offs[4], func(r column.Row) error { r.SetInt64("a", 11); return nil })
		txn.DeleteAt(offs[2])
		return nil
	})
	w.Stat("forced_trigger_change_while_transaction_open", 1)
	np, nd, op, od := atomic.LoadInt32(&newPuts), atomic.LoadInt32(&newDels), atomic.LoadInt32(&oldPuts), atomic.LoadInt32(&oldDels)
	if np != 3 || nd != 1 || op != 0 || od != 0 {
		w.Violate(idx, caseID, fmt.Sprintf("[trigger] a transaction stores to column a of three rows (two blocks; one store buffered before, two after the schema calls) and deletes a row; while it is open another goroutine creates trigger 'new' on a and drops trigger 'old' (both calls returned before the transaction body did): 'new' was told %d stores and %d deletes (expected 3 and 1), 'old' %d stores and %d deletes (expected none)", np, nd, op, od), "",
			map[string]any{"idx": idx, "race": true, "engine": "E3"})
	}
}

func triggerDropDuringCommit(w *W, idx int, caseID string) {
	c := stressCollection(64, false)
	defer c.Close()
	var off uint32
	c.Query(func(txn *column.Txn) error {
		off, _ = txn.Insert(func(r column.Row) error { r.SetInt64("m", 0); return nil })
		return nil
	})
	var k1, k2 int32
	entered, dropped := make(chan struct{}), make(chan struct{})
	first := true
	c.CreateTrigger("t0", "a", func(r column.Reader) {
		if first {
			first = false
			close(entered)
			<-dropped // the commit is parked here while t0 is being dropped
		}
	})
	c.CreateTrigger("k1", "a", func(r column.Reader) { atomic.AddInt32(&k1, 1) })
	c.CreateTrigger("k2", "a", func(r column.Reader) { atomic.AddInt32(&k2, 1) })
	go func() {
		<-entered
		c.DropTrigger("t0")
		close(dropped)
	}()
	c.QueryAt(off, func(r column.Row) error { r.SetInt64("a", 42); return nil })
	w.Stat("forced_drop_during_commit", 1)
	if a, b := atomic.LoadInt32(&k1), atomic.LoadInt32(&k2); a != 1 || b != 1 {
		w.Violate(idx, caseID, fmt.Sprintf("[trigger] one committed store while the first trigger of the column was dropped from another goroutine mid-commit: the two triggers that stayed registered were called %d and %d times", a, b), "",
			map[string]any{"idx": idx, "race": true, "engine": "E3"})
	}
}

func triggerRound(w *W, idx int) {
	caseID := fmt.Sprintf("E3:trigger-beside-drops:round%d", idx)
	w.Begin(idx, caseID)
	triggerDropDuringCommit(w, idx, caseID)
	triggerChangedWhileTxnOpen(w, idx, caseID)
	c := stressCollection(1000, false)
	defer c.Close()
	hook := &stressHook{delayPct: 25, seed: w.Seed + int64(idx)}
	hook.install(c)
	defer hook.remove()
	const rows = 20000 // two blocks
	c.Query(func(txn *column.Txn) error {
		for i := 0; i < rows; i++ {
			txn.Insert(func(r column.Row) error { r.SetInt64("m", 0); return nil })
		}
		return nil
	})
	var seen sync.Map // value -> *int32 number of callbacks
	var callbacks int64
	keep := func(r column.Reader) {
		if r.IsDelete() {
			return
		}
		atomic.AddInt64(&callbacks, 1)
		n := new(int32)
		if prev, loaded := seen.LoadOrStore(int64(r.Int()), n); loaded {
			n = prev.(*int32)
		}
		atomic.AddInt32(n, 1)
	}
	c.CreateTrigger("drop0", "a", func(column.Reader) {})
	c.CreateTrigger("keep", "a", keep)
	c.CreateTrigger("drop1", "a", func(column.Reader) {})
	var left int32 = 6
	per := scale(w, 800, 2500)
	var committed sync.Map // value -> true
	var aborted sync.Map
	var stores, drops int64
	var fns []func()
	for wi := 0; wi < 6; wi++ {
		wi := wi
		fns = append(fns, func() {
			defer atomic.AddInt32(&left, -1)
			rng := rngFor(w.Seed, 62, idx, wi)
			for n := 0; n < per; n++ {
				abort := rng.Intn(10) == 0
				var vals []int64
				err := c.Query(func(txn *column.Txn) error {
					for j := 0; j < 4; j++ {
						v := int64(wi+1)<<40 | int64(n)<<4 | int64(j)
						vals = append(vals, v)
						txn.QueryAt(uint32(rng.Intn(rows)), func(r column.Row) error { r.SetInt64("a", v); return nil })
					}
					if abort {
						return errAbort
					}
					return nil
				})
				for _, v := range vals {
					if err == nil {
						committed.Store(v, true)
						atomic.AddInt64(&stores, 1)
					} else {
						aborted.Store(v, true)
					}
				}
			}
		})
	}
	fns = append(fns, func() {
		for i := 0; atomic.LoadInt32(&left) > 0; i++ {
			name := fmt.Sprintf("drop%d", i%2)
			c.DropTrigger(name)
			c.CreateTrigger(name, "a", func(column.Reader) {})
			atomic.AddInt64(&drops, 1)
			time.Sleep(50 * time.Microsecond)
		}
	})
	parallel(fns...)
	bad := ""
	committed.Range(func(k, _ any) bool {
		n, ok := seen.Load(k)
		switch {
		case !ok:
			bad = fmt.Sprintf("committed store of value %d to the watched column was never reported to the trigger that stayed registered", k)
		case atomic.LoadInt32(n.(*int32)) != 1:
			bad = fmt.Sprintf("committed store of value %d was reported %d times to the trigger that stayed registered", k, atomic.LoadInt32(n.(*int32)))
		}
		return bad == ""
	})
	if bad == "" {
		aborted.Range(func(k, _ any) bool {
			if _, ok := seen.Load(k); ok {
				bad = fmt.Sprintf("value %d of a rolled-back transaction was reported to the trigger", k)
			}
			return bad == ""
		})
	}
	w.Stat("stress_committed_stores", stores)
	w.Stat("stress_trigger_callbacks", atomic.LoadInt64(&callbacks))
	w.Stat("stress_trigger_drops_beside_commits", drops)
	w.Stat("stress_rounds", 1)
	w.Eval(hashOf("trig", idx, stores), stores > 100)
	if bad != "" {
		w.Violate(idx, caseID, "[trigger] "+bad, "", map[string]any{"idx": idx, "race": true, "engine": "E3"})
	}
	if idx == 0 {
		w.Sample(map[string]any{"round": idx, "writers": 6, "txns_per_writer": per, "committed_stores": stores, "callbacks": callbacks, "drops": drops})
	}
}

// ---------------------------------------------------------------------------------------------
// C08: many blocks, one writer per block, large commits, snapshots in a loop. With a single
// writer per row the prefix oracle is a counter: the restored row must hold the k-th state of
// its writer with acked-before-call <= k <= started-before-return, and the payload of state k.

func widePayload(wi int, k int64) string {
	b := make([]byte, 24)
	x := uint64(wi+1)*0x9E3779B97F4A7C15 + uint64(k)*0xD1B54A32D192ED03
	for i := range b {
		x ^= x << 13
		x ^= x >> 7
		x ^= x << 17
		b[i] = byte(x)
	}
	return string(b)
}

func snapshotWideRound(w *W, idx int) {
	caseID := fmt.Sprintf("E3:snapshot-wide:round%d", idx)
	w.Begin(idx, caseID)
	const writers = 48
	c := column.NewCollection(column.Options{Capacity: 64, Vacuum: 1 << 40})
	defer c.Close()
	c.CreateColumn("n", column.ForInt64())
	c.CreateColumn("s", column.ForString())
	rows := make([]uint32, writers)
	for wi := 0; wi < writers; wi++ {
		rows[wi] = uint32(wi)<<14 + 3
		row, n := commit.NewBuffer(16), commit.NewBuffer(16)
		row.Reset("row")
		n.Reset("n")
		row.PutOperation(commit.Insert, rows[wi])
		n.PutInt64(commit.Put, rows[wi], 0)
		if err := c.Replay(commit.Commit{ID: 1, Chunk: commit.Chunk(wi), Updates: []*commit.Buffer{row, n}}); err != nil {
			panic(err)
		}
	}
	// no injected delays here: the point is maximal contention on the snapshot recorder
	per := int64(scale(w, 1200, 3000)) // race-detector build
	if idx >= 100 {
		per = int64(scale(w, 5000, 15000)) // plain build
	}
	var started, acked [writers]int64
	var left int32 = writers
	var fns []func()
	for wi := 0; wi < writers; wi++ {
		wi := wi
		fns = append(fns, func() {
			defer atomic.AddInt32(&left, -1)
			for k := int64(1); k <= per; k++ {
				atomic.StoreInt64(&started[wi], k)
				c.QueryAt(rows[wi], func(r column.Row) error {
					r.SetInt64("n", k)
					r.SetString("s", widePayload(wi, k))
					return nil
				})
				atomic.StoreInt64(&acked[wi], k)
			}
		})
	}
	type snap struct {
		lo, hi [writers]int64
		data   []byte
		err    error
	}
	var snaps []snap
	fns = append(fns, func() {
		for i := 0; i < 200 && atomic.LoadInt32(&left) > 0; i++ {
			var s snap
			for wi := range s.lo {
				s.lo[wi] = atomic.LoadInt64(&acked[wi])
			}
			var buf bytes.Buffer
			s.err = c.Snapshot(&buf)
			for wi := range s.hi {
				s.hi[wi] = atomic.LoadInt64(&started[wi])
			}
			s.data = buf.Bytes()
			snaps = append(snaps, s)
		}
	})
	parallel(fns...)
	replay := map[string]any{"idx": idx, "race": true, "engine": "E3"}
	bytesTotal := 0
	for si, s := range snaps {
		bytesTotal += len(s.data)
		if s.err != nil {
			w.Violate(idx, caseID, fmt.Sprintf("[snapshot] snapshot %d failed beside %d writers: %v", si, writers, s.err), "", replay)
			return
		}
		r := column.NewCollection(column.Options{Capacity: 64, Vacuum: 1 << 40})
		r.CreateColumn("n", column.ForInt64())
		r.CreateColumn("s", column.ForString())
		err := r.Restore(bytes.NewReader(s.data))
		if err != nil {
			r.Close()
			w.Violate(idx, caseID, fmt.Sprintf("[snapshot] snapshot %d (%d bytes) taken beside %d writers does not restore: %v", si, len(s.data), writers, err), "", replay)
			return
		}
		for wi := 0; wi < writers; wi++ {
			var n int64
			var str string
			var ok1, ok2 bool
			r.QueryAt(rows[wi], func(row column.Row) error { n, ok1 = row.Int64("n"); str, ok2 = row.String("s"); return nil })
			bad := ""
			switch {
			case !ok1 || n < s.lo[wi] || n > s.hi[wi]:
				bad = fmt.Sprintf("holds state %d (present %v); %d commits were acknowledged before the call and %d had started when it returned", n, ok1, s.lo[wi], s.hi[wi])
			case n > 0 && (!ok2 || str != widePayload(wi, n)):
				bad = fmt.Sprintf("holds counter %d but not the payload stored with it (commit applied partially)", n)
			}
			if bad != "" {
				r.Close()
				w.Violate(idx, caseID, fmt.Sprintf("[snapshot] snapshot %d: restored row %d (block %d, single writer) %s", si, rows[wi], wi, bad), "", replay)
				return
			}
		}
		r.Close()
	}
	w.Stat("wide_snapshots_restored", int64(len(snaps)))
	w.Stat("wide_snapshot_bytes", int64(bytesTotal))
	w.Stat("wide_commits", int64(writers)*per)
	w.Stat("stress_rounds", 1)
	w.Eval(hashOf("wide", idx, len(snaps), bytesTotal/100000), len(snaps) > 0)
	if idx <= 1 {
		w.Sample(map[string]any{"round": idx, "writers_and_blocks": writers, "commits_per_writer": per, "snapshots": len(snaps), "snapshot_bytes_total": bytesTotal})
	}
}

// ---------------------------------------------------------------------------------------------
// C06 / C11: Count() after marker commits (inserts/deletes) that overlap in different blocks.
// The row count is collection-wide state maintained by every commit that carries row markers
// and by every rollback; commits of different blocks do not exclude each other. Forced part:
// a trigger callback runs while commit A (a delete in block 0) is cleaning up its columns, and
// performs, on the same goroutine, another client's whole transaction B that touches block 1
// only (a delete, or an insert that rolls back) - B cannot be ordered behind A by any latch.
// Free part: pairs of such transactions started together on two goroutines.
// After each pair: Count() == rows visited by Range == Count() of a replica fed the stream.

func countRound(w *W, idx int) {
	caseID := fmt.Sprintf("E3:count:round%d", idx)
	w.Begin(idx, caseID)
	lg := &recLogger{}
	mk := func(wr commit.Logger) *column.Collection {
		o := column.Options{Capacity: 64, Vacuum: 1 << 40}
		if wr != nil {
			o.Writer = wr
		}
		c := column.NewCollection(o)
		for i := 0; i < 10; i++ {
			c.CreateColumn(fmt.Sprintf("c%d", i), column.ForInt64())
		}
		c.CreateColumn("s", column.ForString())
		c.CreateColumn("b", column.ForBool())
		return c
	}
	P, R := mk(lg), mk(nil)
	defer P.Close()
	defer R.Close()
	// block 0 holds 30 rows, blocks 1 and 2 hold 8 000 each: with ~16 000 rows the insert path looks for a
	// free offset below offset 16 030, i.e. in block 0, whatever is freed in blocks 1 and 2
	const perBlock = 8000
	for _, c := range []*column.Collection{P, R} {
		for blk := uint32(0); blk < 3; blk++ {
			mkb := func(name string) *commit.Buffer { b := commit.NewBuffer(64); b.Reset(name); return b }
			rb, vb := mkb("row"), mkb("c0")
			n := uint32(perBlock)
			if blk == 0 {
				n = 30
			}
			for i := uint32(0); i < n; i++ {
				rb.PutOperation(commit.Insert, blk<<14+i)
				vb.PutInt64(commit.Put, blk<<14+i, int64(i))
			}
			if err := c.Replay(commit.Commit{ID: 1, Chunk: commit.Chunk(blk), Updates: []*commit.Buffer{rb, vb}}); err != nil {
				panic(err)
			}
		}
	}
	next := [3]uint32{} // next victim per block
	victim := func(blk uint32) uint32 { next[blk]++; return blk<<14 + next[blk] - 1 }
	var other func()
	var ordered int64
	P.CreateTrigger("tg", "c0", func(r column.Reader) {
		if r.IsDelete() && r.Index()>>14 == 1 && other != nil {
			f := other
			other = nil
			done := make(chan struct{})
			go func() { defer close(done); f() }()
			select {
			case <-done:
			case <-time.After(3 * time.Second):
				ordered++ // B waits for something A holds: it is ordered behind A, nothing to judge
			}
		}
	})
	fail := func(detail string) {
		w.Violate(idx, caseID, detail, "", map[string]any{"idx": idx})
	}
	check := func(what string) bool {
		rows := 0
		P.Query(func(txn *column.Txn) error { return txn.Range(func(uint32) { rows++ }) })
		for _, cm := range lg.take() {
			if err := R.Replay(cm); err != nil {
				fail(what + ": Replay failed: " + err.Error())
				return false
			}
		}
		if n := P.Count(); n != rows || R.Count() != rows {
			fail(fmt.Sprintf("%s: primary Count()=%d, Range visits %d rows, replica Count()=%d", what, n, rows, R.Count()))
			return false
		}
		return true
	}
	var landed [3]int64
	bDelete := func() { P.DeleteAt(victim(2)) }
	bInsert := func(abort bool) func() {
		return func() {
			P.Query(func(txn *column.Txn) error {
				off, _ := txn.Insert(func(r column.Row) error { r.SetInt64("c0", 1); return nil })
				if off>>14 < 3 {
					atomic.AddInt64(&landed[off>>14], 1)
				}
				if abort {
					return errAbort
				}
				return nil
			})
		}
	}
	forced := int64(0)
	kinds := []struct {
		desc string
		fn   func()
	}{{"delete in block 2", bDelete}, {"insert into block 0 that rolls back", bInsert(true)}, {"insert into block 0", bInsert(false)}}
	for i := 0; i < 90; i++ {
		k := kinds[i%3]
		other = k.fn
		P.DeleteAt(victim(1))
		if other != nil {
			fail("the trigger on c0 was not called for a row delete")
			return
		}
		forced++
		if !check(fmt.Sprintf("commit A deletes a row of block 1; while A cleans up its columns another client's transaction B (%s) runs to completion", k.desc)) {
			return
		}
	}
	P.DropTrigger("tg")
	pairs := int64(0)
	n := 3000
	if w.Thorough() {
		n = 7000
	}
	for i := 0; i < n; i++ {
		if next[1] >= perBlock-2 || next[2] >= perBlock-2 {
			break
		}
		start := make(chan struct{})
		a := victim(1)
		b := kinds[i%3].fn
		var wg sync.WaitGroup
		wg.Add(2)
		go func() { defer wg.Done(); <-start; P.DeleteAt(a) }()
		go func() { defer wg.Done(); <-start; b() }()
		close(start)
		wg.Wait()
		pairs++
		if !check("two clients commit row markers to different blocks at the same time (" + kinds[i%3].desc + " beside a delete in block 1)") {
			return
		}
	}
	w.Stat("forced_marker_commit_overlaps", forced-ordered)
	w.Stat("forced_overlaps_where_B_had_to_wait_for_A", ordered)
	w.Stat("concurrent_marker_commit_pairs", pairs)
	w.Stat("count_comparisons", forced+pairs)
	w.Stat("inserts_landed_in_block_0", landed[0])
	w.Stat("inserts_landed_in_block_1_or_2", landed[1]+landed[2])
	w.Eval(hashOf("count", idx), forced-ordered > 0 && pairs > 0)
}

// ---------------------------------------------------------------------------------------------
// C02: a snapshot taken beside committing writers never contains half of a transaction's changes
// to a row. Writers stamp one tag into six columns of a row (one block, so one commit); a
// snapshot loop runs beside them; every snapshot is restored and every target row judged.

func tornSnapshotRound(w *W, idx int) {
	caseID := fmt.Sprintf("E3:torn-snapshot:round%d", idx)
	w.Begin(idx, caseID)
	c := stressCollection(64, false)
	defer c.Close()
	var targets []uint32
	for blk := uint32(0); blk < 3; blk++ {
		mkb := func(name string) *commit.Buffer { b := commit.NewBuffer(64); b.Reset(name); return b }
		rb, vb := mkb("row"), mkb("m")
		for i := uint32(0); i < 8; i++ {
			off := blk<<14 + i*37
			rb.PutOperation(commit.Insert, off)
			vb.PutInt64(commit.Put, off, 0)
			targets = append(targets, off)
		}
		if err := c.Replay(commit.Commit{ID: 1, Chunk: commit.Chunk(blk), Updates: []*commit.Buffer{rb, vb}}); err != nil {
			panic(err)
		}
	}
	c.Query(func(txn *column.Txn) error {
		for _, t := range targets {
			txn.QueryAt(t, func(r column.Row) error { writeTag(r, 0); return nil })
		}
		return nil
	})
	hook := &stressHook{delayPct: 30, seed: w.Seed + int64(idx)}
	hook.install(c)
	defer hook.remove()
	const writers = 6
	txnsPer := 3000
	if w.Thorough() {
		txnsPer = 12000
	}
	var left int32 = writers
	var fns []func()
	for wi := 0; wi < writers; wi++ {
		wi := wi
		fns = append(fns, func() {
			defer atomic.AddInt32(&left, -1)
			r := rngFor(w.Seed, 41, idx, wi)
			for n := 1; n <= txnsPer; n++ {
				tag := int64(wi+1)<<40 | int64(n)
				rollback := r.Intn(10) == 0
				if rollback {
					tag |= poison
				}
				t := targets[r.Intn(len(targets))]
				c.Query(func(txn *column.Txn) error {
					txn.QueryAt(t, func(row column.Row) error { writeTag(row, tag); return nil })
					if rollback {
						return errAbort
					}
					return nil
				})
			}
		})
	}
	var snaps, overlapping, rowsJudged int64
	var bad string
	fns = append(fns, func() {
		for atomic.LoadInt32(&left) > 0 && bad == "" {
			var buf bytes.Buffer
			before := atomic.LoadInt64(&hook.commits)
			if err := c.Snapshot(&buf); err != nil {
				bad = "Snapshot beside writers failed: " + err.Error()
				return
			}
			if atomic.LoadInt64(&hook.commits) > before {
				overlapping++
			}
			snaps++
			o := stressCollection(64, false)
			if err := o.Restore(bytes.NewReader(buf.Bytes())); err != nil {
				bad = "Restore of a snapshot taken beside writers failed: " + err.Error()
				o.Close()
				return
			}
			for _, t := range targets {
				o.QueryAt(t, func(row column.Row) error {
					rowsJudged++
					if _, b := readTag(row); b != "" && bad == "" {
						bad = fmt.Sprintf("snapshot %d, restored: %s", snaps, b)
					}
					return nil
				})
			}
			o.Close()
		}
	})
	parallel(fns...)
	w.Stat("snapshots_beside_writers", snaps)
	w.Stat("snapshots_overlapping_commits", overlapping)
	w.Stat("restored_rows_judged", rowsJudged)
	w.Stat("writer_transactions", int64(writers*txnsPer))
	w.Eval(hashOf("torn-snapshot", idx, snaps/10), snaps > 5 && overlapping > 0)
	if bad != "" {
		w.Violate(idx, caseID, "[torn-snapshot] "+bad, "", map[string]any{"idx": idx})
	}
}

// ---------------------------------------------------------------------------------------------
// C10: writers beside a collection that grows into new blocks. Every growth re-allocates column
// storage (bool columns and indexes are one bitmap for all blocks); an update applied while the
// storage is being re-allocated must not be lost. Each writer owns its rows (nobody else writes
// them) and reads a row back right after its own commit, so no read races with anything: the
// row must show exactly the tag just committed, in all six columns.

func growRound(w *W, idx int) {
	caseID := fmt.Sprintf("E3:grow-beside-writers:round%d", idx)
	w.Begin(idx, caseID)
	var readbacks, growths, lost, txns int64
	var first atomic.Value
	subs := 4
	if w.Thorough() {
		subs = 12
	}
	bools := []string{"x0", "x1", "x2", "x3", "x4", "x5", "x6", "x7"}
	for sub := 0; sub < subs; sub++ {
		c := column.NewCollection(column.Options{Capacity: 1000, Vacuum: 1 << 40})
		c.CreateColumn("a", column.ForInt64())
		c.CreateColumn("m", column.ForInt64())
		for _, xb := range bools {
			c.CreateColumn(xb, column.ForBool())
		}
		// eight bitmap indexes on a: the apply of an index evaluates its predicate per row and so takes
		// the longest - the best chance for a re-allocation of that index to fall into it
		idxs := []string{"odd0", "odd1", "odd2", "odd3", "odd4", "odd5", "odd6", "odd7"}
		for _, ix := range idxs {
			c.CreateIndex(ix, "a", func(r column.Reader) bool { return r.Int()&1 == 1 })
		}
		// large transactions (every row a writer owns): the apply of one column takes long enough
		// for a re-allocation of that column's storage to fall into it
		const writers, own = 4, 1500
		c.Query(func(txn *column.Txn) error {
			for i := 0; i < 16384; i++ {
				txn.Insert(func(r column.Row) error { r.SetInt64("m", 0); return nil })
			}
			return nil
		})
		var done int32
		var fns []func()
		for wi := 0; wi < writers; wi++ {
			wi := wi
			fns = append(fns, func() {
				for n := 1; atomic.LoadInt32(&done) == 0; n++ {
					tag := int64(wi+1)<<40 | int64(n)
					odd := tag&1 == 1
					c.Query(func(txn *column.Txn) error {
						for i := 0; i < own; i++ {
							txn.QueryAt(uint32(wi*own+i), func(rw column.Row) error {
								rw.SetInt64("a", tag)
								for _, xb := range bools {
									rw.SetBool(xb, odd)
								}
								return nil
							})
						}
						return nil
					})
					atomic.AddInt64(&txns, 1)
					c.Query(func(txn *column.Txn) error {
						for i := n % 3; i < own; i += 3 { // every third row: a lost stretch of an apply is hundreds of rows long
							row := uint32(wi*own + i)
							txn.QueryAt(row, func(rw column.Row) error {
								atomic.AddInt64(&readbacks, 1)
								bad := ""
								if got, ok := rw.Int64("a"); !ok || got != tag {
									bad = fmt.Sprintf("a reads (%d,%v)", got, ok)
								}
								for _, xb := range bools {
									if bad == "" && rw.Bool(xb) != odd {
										bad = fmt.Sprintf("bool column %s reads %v", xb, rw.Bool(xb))
									}
								}
								for _, ix := range idxs {
									if bad == "" && rw.Bool(ix) != odd {
										bad = fmt.Sprintf("index %s (a is odd) reads %v", ix, rw.Bool(ix))
									}
								}
								if bad != "" && atomic.AddInt64(&lost, 1) == 1 {
									first.Store(fmt.Sprintf("writer %d committed a=%d and %d bool columns = %v to each of its own %d rows and read them back at once (nobody else writes those rows) while the collection grew into block %d: row %d: %s", wi, tag, len(bools), odd, own, atomic.LoadInt64(&growths)%13+1, row, bad))
								}
								return nil
							})
						}
						return nil
					})
				}
			})
		}
		fns = append(fns, func() {
			defer atomic.StoreInt32(&done, 1)
			for blk := 1; blk <= 13; blk++ {
				time.Sleep(3 * time.Millisecond)
				for part := 0; part < 4; part++ {
					c.Query(func(txn *column.Txn) error {
						for i := 0; i < 4096; i++ {
							txn.Insert(func(r column.Row) error { r.SetInt64("m", 1); return nil })
						}
						return nil
					})
				}
				atomic.AddInt64(&growths, 1)
			}
		})
		parallel(fns...)
		c.Close()
	}
	w.Stat("own_row_readbacks_beside_growth", readbacks)
	w.Stat("large_transactions_beside_growth", txns)
	w.Stat("blocks_opened_beside_writers", growths)
	w.Eval(hashOf("grow", idx, growths), readbacks > 100 && growths > 0)
	if lost > 0 {
		w.Violate(idx, caseID, fmt.Sprintf("[lost-update] %d of %d read-backs; first: %s", lost, readbacks, first.Load()), "", map[string]any{"idx": idx})
	}
}

// ---------------------------------------------------------------------------------------------
// C09: merges into a block that does not exist yet. Several transactions, started together, merge
// into the same cell of a row in the next block beyond the collection's extent; the first to
// commit creates the block, the others find it there. Every committed delta must be in the cell.
// (The row is not live: the library stores to any offset through QueryAt. Only a cell that reads
// back present with part of the deltas is a violation; a cell reported absent is not judged.)
// The merge function is user code and yields the processor, as a slow one would.

func mergeNewBlockRound(w *W, idx int) {
	caseID := fmt.Sprintf("E3:merge-into-new-block:round%d", idx)
	w.Begin(idx, caseID)
	iters, absent, lostAt := int64(0), int64(0), ""
	colls := 6
	if w.Thorough() {
		colls = 30
	}
	for ci := 0; ci < colls && lostAt == ""; ci++ {
		c := column.NewCollection(column.Options{Capacity: 64, Vacuum: 1 << 40})
		c.CreateColumn("n", column.ForInt64(column.WithMerge(func(v, d int64) int64 {
			runtime.Gosched()
			return v + d
		})))
		c.CreateColumn("s", column.ForString(column.WithMerge(func(v, d string) string {
			runtime.Gosched()
			return v + d
		})))
		c.Insert(func(r column.Row) error { r.SetInt64("n", 1); return nil })
		const mergers = 6
		for blk := uint32(1); blk <= 12 && lostAt == ""; blk++ {
			row := blk<<14 + uint32(ci*7)%1000
			start := make(chan struct{})
			var wg sync.WaitGroup
			for g := 0; g < mergers; g++ {
				g := g
				wg.Add(1)
				go func() {
					defer wg.Done()
					<-start
					c.QueryAt(row, func(r column.Row) error {
						r.MergeInt64("n", int64(1)<<(8*uint(g)))
						r.MergeString("s", string(rune('a'+g)))
						return nil
					})
				}()
			}
			close(start)
			wg.Wait()
			iters++
			want := int64(0)
			for g := 0; g < mergers; g++ {
				want += int64(1) << (8 * uint(g))
			}
			c.QueryAt(row, func(r column.Row) error {
				n, ok := r.Int64("n")
				s, _ := r.String("s")
				if !ok {
					absent++ // a library that refuses stores to rows that are not live yet is not judged here
					return nil
				}
				if n != want || len(s) != mergers {
					lostAt = fmt.Sprintf("%d transactions each merged a distinct power of 256 into n and one letter into s of row %d (first row written in block %d, which no transaction had committed to before): n reads %#x (present=%v), expected %#x; s reads %q", mergers, row, blk, n, ok, want, s)
				}
				return nil
			})
		}
		c.Close()
	}
	w.Stat("new_block_merge_groups", iters)
	w.Stat("new_block_merges", iters*6)
	w.Stat("new_block_cells_reported_absent", absent)
	w.Eval(hashOf("merge-new-block", idx), iters > absent)
	if lostAt != "" {
		w.Violate(idx, caseID, "[lost-merge] "+lostAt, "", map[string]any{"idx": idx})
	}
}

// ---------------------------------------------------------------------------------------------
// C06: key take-overs across blocks under real parallelism. Block 0 is full of keyed rows
// ("pre-i"); every "deleter" deletes keys of its own share of them (every second one frees them by
// re-keying the row instead), every "taker" re-keys rows it
// owns in block 1 to the keys of one deleter as soon as they are free (SetKey fails while the key
// exists). Each key has exactly one deleter and one taker, so no two transactions ever create the
// same key (that would be KF-KEY-CHECK-THEN-ACT); what is exercised is the order in which commits
// of different blocks reach the stream relative to the order in which they touched the key table.
// At quiescence every key must resolve identically on the primary and on the stream replica.

func keyTakeoverRound(w *W, idx int) {
	caseID := fmt.Sprintf("E3:key-takeover:round%d", idx)
	w.Begin(idx, caseID)
	ch := make(commit.Channel, 4096)
	mk := func(wr commit.Logger) *column.Collection {
		o := column.Options{Capacity: 1000, Vacuum: 1 << 40}
		if wr != nil {
			o.Writer = wr
		}
		c := column.NewCollection(o)
		c.CreateColumn("k", column.ForKey())
		c.CreateColumn("v", column.ForInt64())
		return c
	}
	P, R := mk(ch), mk(nil)
	defer P.Close()
	defer R.Close()
	const pairs, perPair = 4, 120
	fill := func(txn *column.Txn) error {
		for i := 0; i < 16384; i++ {
			txn.InsertKey(fmt.Sprintf("pre-%d", i), func(r column.Row) error { r.SetInt64("v", int64(i)); return nil })
		}
		for p := 0; p < pairs; p++ {
			for j := 0; j < perPair; j++ {
				txn.InsertKey(fmt.Sprintf("own-%d-%d", p, j), func(r column.Row) error { r.SetInt64("v", -1); return nil })
			}
		}
		return nil
	}
	P.Query(fill)
	var replayErr error
	drained := make(chan struct{})
	go func() {
		defer close(drained)
		for c := range ch {
			if err := R.Replay(c); err != nil && replayErr == nil {
				replayErr = err
			}
		}
	}()
	hook := &stressHook{delayPct: 20, seed: w.Seed + int64(idx)}
	hook.install(P)
	defer hook.remove()
	var takeovers, attempts int64
	var fns []func()
	for p := 0; p < pairs; p++ {
		p := p
		fns = append(fns, func() { // deleter: keys pre-(p*1000+j), rows of block 0; touches another row of the block in the same transaction
			for j := 0; j < perPair; j++ {
				key, other := fmt.Sprintf("pre-%d", p*1000+j), fmt.Sprintf("pre-%d", p*1000+500+j)
				P.Query(func(txn *column.Txn) error {
					if p%2 == 1 {
						// frees the key by giving the row another one (the store to v comes after the key in the transaction)
						txn.QueryKey(key, func(r column.Row) error { r.SetKey("moved-" + key); r.MergeInt64("v", 1); return nil })
					} else {
						txn.DeleteKey(key)
					}
					return txn.QueryKey(other, func(r column.Row) error { r.MergeInt64("v", 1); return nil })
				})
			}
		})
		fns = append(fns, func() { // taker: its own rows in block 1 take the freed keys over
			for j := 0; j < perPair; j++ {
				key, own := fmt.Sprintf("pre-%d", p*1000+j), fmt.Sprintf("own-%d-%d", p, j)
				for try := 0; try < 200000; try++ {
					var err error
					P.Query(func(txn *column.Txn) error {
						return txn.QueryKey(own, func(r column.Row) error { err = txn.Key().Set(key); return nil })
					})
					atomic.AddInt64(&attempts, 1)
					if err == nil {
						atomic.AddInt64(&takeovers, 1)
						break
					}
					runtime.Gosched()
				}
			}
		})
	}
	parallel(fns...)
	close(ch)
	<-drained
	if replayErr != nil {
		w.Violate(idx, caseID, "Replay failed: "+replayErr.Error(), "", map[string]any{"idx": idx})
		return
	}
	bad, compared := "", 0
	for p := 0; p < pairs && bad == ""; p++ {
		for j := 0; j < perPair && bad == ""; j++ {
			for _, key := range []string{fmt.Sprintf("pre-%d", p*1000+j), fmt.Sprintf("own-%d-%d", p, j), fmt.Sprintf("pre-%d", p*1000+500+j), fmt.Sprintf("moved-pre-%d", p*1000+j)} {
				po, ro := int64(-1), int64(-1)
				var pv, rv int64
				P.QueryKey(key, func(r column.Row) error { po = int64(r.Index()); pv, _ = r.Int64("v"); return nil })
				R.QueryKey(key, func(r column.Row) error { ro = int64(r.Index()); rv, _ = r.Int64("v"); return nil })
				compared++
				if po != ro || pv != rv {
					bad = fmt.Sprintf("key %q: the primary resolves it to row %d (v=%d), the replica fed the stream in emission order to row %d (v=%d) (-1 = not found)", key, po, pv, ro, rv)
					break
				}
			}
		}
	}
	if bad == "" && P.Count() != R.Count() {
		bad = fmt.Sprintf("Count: primary %d, replica %d", P.Count(), R.Count())
	}
	w.Stat("key_takeovers_across_blocks", takeovers)
	w.Stat("key_takeover_attempts", attempts)
	w.Stat("keys_compared_primary_vs_replica", int64(compared))
	w.Eval(hashOf("key-takeover", idx, takeovers), takeovers > 0)
	if bad != "" {
		w.Violate(idx, caseID, "[key-replica] deleters free keys of block-0 rows while takers re-key block-1 rows to them: "+bad, "", map[string]any{"idx": idx})
	}
}

// ---------------------------------------------------------------------------------------------
// C02 / C11: reservations beside rollbacks. Some transactions insert a row and stay open, others
// insert and roll back, all started together (they contend for the fill-list lock). With the
// rolling-back ones finished and the open ones still open the collection is quiescent: Count()
// must equal the number of rows a Range visits (committed rows + reserved offsets, which are
// visible: KF-INFLIGHT-INSERT) - a rollback must not take anything but its own reservation with
// it. Then the open ones commit: offsets pairwise distinct, every row holds what its insert
// stored, Count() == rows visited == committed rows. Collections are filled to just below / exactly
// to a block boundary, where a wrong count also misdirects the next reservation.

func reserveRound(w *W, idx int) {
	caseID := fmt.Sprintf("E3:reserve-beside-rollback:round%d", idx)
	w.Begin(idx, caseID)
	fail := func(detail string) { w.Violate(idx, caseID, detail, "", map[string]any{"idx": idx}) }
	bursts := 60
	if w.Thorough() {
		bursts = 400
	}
	var checks, rollbacks int64
	for _, pre := range []int{0, 16383 - 3, 16384, 16384 + 70} {
		c := column.NewCollection(column.Options{Capacity: 64, Vacuum: 1 << 40})
		c.CreateColumn("id", column.ForInt64())
		c.Query(func(txn *column.Txn) error {
			for i := 0; i < pre; i++ {
				txn.Insert(func(r column.Row) error { r.SetInt64("id", -int64(r.Index())-1); return nil })
			}
			return nil
		})
		committed := pre
		count := func() (int, int) {
			rows := 0
			c.Query(func(txn *column.Txn) error { return txn.Range(func(uint32) { rows++ }) })
			return c.Count(), rows
		}
		for b := 0; b < bursts; b++ {
			const holders, aborters = 3, 5
			start, release := make(chan struct{}), make(chan struct{})
			var reserved, finished sync.WaitGroup
			offs := make([]uint32, holders)
			reserved.Add(holders)
			finished.Add(holders)
			for h := 0; h < holders; h++ {
				h := h
				go func() {
					defer finished.Done()
					<-start
					c.Query(func(txn *column.Txn) error {
						off, _ := txn.Insert(func(r column.Row) error { r.SetInt64("id", int64(b)<<20|int64(h+1)); return nil })
						offs[h] = off
						reserved.Done()
						<-release
						return nil
					})
				}()
			}
			var aborted sync.WaitGroup
			aborted.Add(aborters)
			for a := 0; a < aborters; a++ {
				go func() {
					defer aborted.Done()
					<-start
					for k := 0; k < 4; k++ {
						c.Query(func(txn *column.Txn) error {
							txn.Insert(func(r column.Row) error { r.SetInt64("id", 0); return nil })
							return errAbort
						})
						atomic.AddInt64(&rollbacks, 1)
					}
				}()
			}
			close(start)
			reserved.Wait()
			aborted.Wait()
			// quiescent, three inserts open
			cnt, rows := count()
			checks++
			if cnt != rows || rows != committed+holders {
				fail(fmt.Sprintf("%d committed rows, %d inserts open (offsets %v), %d transactions inserted and rolled back meanwhile, nothing else running: Count()=%d, Range visits %d rows, expected %d", committed, holders, offs, aborters*4, cnt, rows, committed+holders))
				close(release)
				finished.Wait()
				c.Close()
				return
			}
			close(release)
			finished.Wait()
			committed += holders
			seen := map[uint32]bool{}
			for h, off := range offs {
				var id int64
				c.QueryAt(off, func(r column.Row) error { id, _ = r.Int64("id"); return nil })
				if seen[off] || id != int64(b)<<20|int64(h+1) {
					fail(fmt.Sprintf("after the open inserts committed: offsets %v; row %d holds id %#x, its insert stored %#x (an offset was handed out twice or to a live row)", offs, off, id, int64(b)<<20|int64(h+1)))
					c.Close()
					return
				}
				seen[off] = true
			}
			cnt, rows = count()
			checks++
			if cnt != rows || rows != committed {
				fail(fmt.Sprintf("after the open inserts committed: Count()=%d, Range visits %d rows, %d rows were committed", cnt, rows, committed))
				c.Close()
				return
			}
		}
		c.Close()
	}
	w.Stat("reservations_held_open_beside_rollbacks", checks/2*3)
	w.Stat("rollbacks_beside_open_reservations", rollbacks)
	w.Stat("count_comparisons", checks)
	w.Eval(hashOf("reserve", idx), checks > 0)
}
