package main

// e6_fault.go — E6 writer-fault injector (C14): Snapshot into destinations that start failing at
// every byte budget / every write call index / once / forever, on empty, single-block and
// multi-block collections; afterwards the collection must still commit, snapshot to a healthy
// writer and restore to the model; descriptors and temp files are counted with the GC disabled.

import (
	"bytes"
	"errors"
	"fmt"
	"math/rand"
	"os"
	"runtime"
	"runtime/debug"
	"time"

	"github.com/kelindar/column"
)

var errDiskFull = errors.New("injected: destination write failed")

type faultSpec struct {
	Mode string `json:"mode"` // bytes | call | once | forever | none
	N    int    `json:"n"`
}

func (f faultSpec) String() string { return fmt.Sprintf("%s:%d", f.Mode, f.N) }

type faultWriter struct {
	spec    faultSpec
	calls   int
	written int
	failed  bool // an error was returned to some Write
	buf     bytes.Buffer
}

func (w *faultWriter) Write(p []byte) (int, error) {
	call := w.calls
	w.calls++
	switch w.spec.Mode {
	case "forever":
		w.failed = true
		return 0, errDiskFull
	case "call":
		if call >= w.spec.N {
			w.failed = true
			return 0, errDiskFull
		}
	case "once":
		if call == w.spec.N {
			w.failed = true
			return 0, errDiskFull
		}
	case "bytesonce":
		// fails once, in the middle of a write: accepts what fits, reports the error, works again afterwards
		if !w.failed && w.written+len(p) > w.spec.N && w.spec.N >= w.written {
			room := w.spec.N - w.written
			w.buf.Write(p[:room])
			w.written += room
			w.failed = true
			return room, errDiskFull
		}
	case "bytes":
		room := w.spec.N - w.written
		if room < len(p) {
			if room < 0 {
				room = 0
			}
			w.buf.Write(p[:room])
			w.written += room
			w.failed = true
			return room, errDiskFull // short write with an error
		}
	}
	w.buf.Write(p)
	w.written += len(p)
	return len(p), nil
}

func countFDs() int {
	ents, err := os.ReadDir("/proc/self/fd")
	if err != nil {
		return -1
	}
	return len(ents) - 1 // the directory handle used for reading
}

func countTemp() int {
	ents, err := os.ReadDir(os.TempDir())
	if err != nil {
		return -1
	}
	return len(ents)
}

func faultCase(w *W, idx int, async bool) {
	caseID := fmt.Sprintf("E6:fault:%d", idx)
	if async {
		caseID = fmt.Sprintf("E6:fault-async:%d", idx)
	}
	w.Begin(idx, caseID)
	seed := w.Seed*86028121 + int64(idx)*104395301
	rng := rand.New(rand.NewSource(seed))
	variant := idx % 3 // 0 empty, 1 single block, 2 multi block
	if idx%8 == 7 {
		faultCaseBig(w, idx, async)
		return
	}
	cfg := e1Cfg{Prop: "C14", Kinds: []Kind{KInt, KInt16, KFloat64, KBool, KString, KEnum, KRecord}, Pool: "edge", Txn: baseTxn(), Oracles: oracleSet(), NIdx: 1,
		Caps: []int{64, 1000, 16385}}
	cfg.Txn.MaxLive = 80
	switch variant {
	case 0:
		cfg.Steps = 0
	case 1:
		cfg.Steps = 10 + rng.Intn(20)
	default:
		cfg.Steps = 10 + rng.Intn(20)
		cfg.LayoutPct = 100
	}
	h := &history{w: w, idx: idx, cfg: cfg, rng: rng, stats: map[string]int64{}, lastID: map[uint32]uint64{}, nCols: map[Kind]int{}, caseID: caseID}
	h.g = newGen(seed+1, "edge")
	h.wd = newWorld(cfg.Caps[rng.Intn(len(cfg.Caps))], false, false)
	defer h.wd.Close()
	defer func() {
		if p := recover(); p != nil {
			w.Violate(idx, caseID, fmt.Sprintf("panic: %v\n%s", p, trimStack(debug.Stack())), "", map[string]any{"idx": idx})
		}
	}()
	h.setup()
	for h.steps = 0; h.steps < cfg.Steps; h.steps++ {
		h.txnQuiet()
	}
	sv := h.wd.M.view(nil)
	fail := func(detail string, f faultSpec) {
		w.Violate(idx, caseID, fmt.Sprintf("fault %s on a %s collection (%d live rows): %s", f, []string{"empty", "single-block", "multi-block"}[variant], len(h.wd.M.Live), detail), "",
			map[string]any{"idx": idx, "fault": f, "async": async})
	}
	// dry run: stream length and number of write calls, also warms up runtime descriptors
	dry := &faultWriter{spec: faultSpec{Mode: "none"}}
	if err := h.wd.P.Snapshot(dry); err != nil {
		fail("fault-free Snapshot failed: "+err.Error(), dry.spec)
		return
	}
	L, K := dry.written, dry.calls
	// what a healthy destination received must be a snapshot: it restores to the collection's state
	{
		c, err := h.wd.buildLike(h.wd.Cap, nil, false, -1)
		if err != nil {
			panic(err)
		}
		err = c.Restore(bytes.NewReader(dry.buf.Bytes()))
		if err != nil {
			c.Close()
			fail(fmt.Sprintf("Snapshot to a healthy writer returned nil and wrote %d bytes in %d calls, which do not restore: %v", L, K, err), dry.spec)
			return
		}
		d := cmpStates(dumpState(h.wd.P, sv), dumpState(c, sv), "collection", "restored", sv)
		c.Close()
		if d != "" {
			fail("the fault-free snapshot restores wrongly: "+d, dry.spec)
			return
		}
	}
	var specs []faultSpec
	maxSpecs := 260
	if async {
		maxSpecs = 40
	}
	if w.Thorough() && !async {
		maxSpecs = 1500
	}
	if L+1 <= maxSpecs/2 {
		for n := 0; n <= L; n++ {
			specs = append(specs, faultSpec{"bytes", n})
		}
	} else {
		for i := 0; i < maxSpecs/2; i++ {
			specs = append(specs, faultSpec{"bytes", rng.Intn(L + 1)})
		}
		specs = append(specs, faultSpec{"bytes", 0}, faultSpec{"bytes", 1}, faultSpec{"bytes", L - 1}, faultSpec{"bytes", L})
	}
	for k := 0; k <= K+1 && k < maxSpecs/4; k++ {
		specs = append(specs, faultSpec{"call", k}, faultSpec{"once", k})
	}
	for i := 0; i < maxSpecs/8; i++ {
		specs = append(specs, faultSpec{"bytesonce", rng.Intn(L + 1)})
	}
	specs = append(specs, faultSpec{"bytesonce", 1}, faultSpec{"bytesonce", L / 2}, faultSpec{"bytesonce", L - 1})
	specs = append(specs, faultSpec{"forever", 0})
	rng.Shuffle(len(specs), func(i, j int) { specs[i], specs[j] = specs[j], specs[i] })
	if len(specs) > maxSpecs {
		specs = specs[:maxSpecs]
	}

	old := debug.SetGCPercent(-1) // finalizers must not hide a leaked descriptor
	defer debug.SetGCPercent(old)
	runtime.GC()
	fd0, tmp0 := countFDs(), countTemp()
	withWriters := idx%2 == 1
	for si, f := range specs {
		fw := &faultWriter{spec: f}
		if withWriters {
			// transactions commit while the (failing) snapshot is in progress
			budget := 2
			nested := si%5 == 0
			hook := func(point string, c *column.Collection, chunk uint32) {
				if c == h.wd.P && nested && point == "snapshot.recorderOpen" {
					// a second Snapshot while this one is running: it fails ("another one in progress"),
					// which makes it a failed snapshot too - it must not leave anything behind either
					nested = false
					var sink bytes.Buffer
					if err := h.wd.P.Snapshot(&sink); err == nil {
						w.Stat("nested_snapshots_that_succeeded", 1)
					} else {
						w.Stat("nested_snapshots_refused", 1)
					}
				}
				if c == h.wd.P && budget > 0 && (point == "snapshot.recorderOpen" || point == "snapshot.beforeRecorderClose") {
					budget--
					h.txnQuiet()
				}
			}
			column.VerifHook.Store(&hook)
		}
		err := h.wd.P.Snapshot(fw)
		column.VerifHook.Store(nil)
		w.Stat("faulted_snapshots", 1)
		if fw.failed {
			w.Stat("snapshots_where_destination_failed", 1)
			if err == nil {
				fail("the destination returned an error to a Write but Snapshot returned nil", f)
				return
			}
		} else if err != nil {
			fail("the destination never failed but Snapshot returned "+err.Error(), f)
			return
		}
		if err == nil && fw.written == 0 {
			fail("Snapshot returned nil without handing a single byte to the destination (no snapshot is empty: Restore rejects an empty stream)", f)
			return
		}
		// the collection keeps working
		before := len(h.wd.Log.commits)
		for try := 0; try < 5 && len(h.wd.Log.commits) == before; try++ {
			h.txnQuiet()
		}
		deep := si%7 == 0 || variant == 0 || si < 6
		if deep {
			st := dumpState(h.wd.P, sv)
			if d := cmpLive(st, h.wd.M); d != "" {
				fail("after the failed snapshot transactions do not commit normally: "+d, f)
				return
			}
			if d := cmpValues(st, h.wd.M); d != "" {
				fail("after the failed snapshot transactions do not commit normally: "+d, f)
				return
			}
			var good bytes.Buffer
			if err := h.wd.P.Snapshot(&good); err != nil {
				fail("a later Snapshot to a healthy writer fails: "+err.Error(), f)
				return
			}
			c, err := h.wd.buildLike(h.wd.Cap, nil, false, -1)
			if err != nil {
				panic(err)
			}
			if err := c.Restore(bytes.NewReader(good.Bytes())); err != nil {
				c.Close()
				fail("the later healthy snapshot does not restore: "+err.Error(), f)
				return
			}
			rs := dumpState(c, sv)
			c.Close()
			if d := cmpStates(st, rs, "collection", "restored-from-later-snapshot", sv); d != "" {
				fail("the later healthy snapshot restores wrongly: "+d, f)
				return
			}
			w.Stat("followup_snapshots_restored", 1)
		}
		if si%50 == 49 || si == len(specs)-1 {
			fd1, tmp1 := countFDs(), countTemp()
			if fd1 > fd0 {
				fail(fmt.Sprintf("open file descriptors grew from %d to %d over %d snapshots (GC disabled)", fd0, fd1, si+1), f)
				return
			}
			if tmp1 > tmp0 {
				fail(fmt.Sprintf("entries in the private TMPDIR grew from %d to %d over %d snapshots", tmp0, tmp1, si+1), f)
				return
			}
			w.Stat("leak_censuses", 1)
		}
	}
	w.Eval(hashOf("fault", idx, L, K, async), true)
	w.StatMax("max_stream_bytes", int64(L))
	w.StatMax("max_write_calls", int64(K))
	if L+1 <= maxSpecs/2 {
		w.Stat("streams_every_byte_budget", 1)
	}
	if idx < 3 {
		n := len(specs)
		if n > 8 {
			n = 8
		}
		w.Sample(map[string]any{"collection": []string{"empty", "single-block", "multi-block"}[variant], "stream_bytes": L, "write_calls": K, "faults": len(specs), "first_faults": specs[:n], "writers_during_snapshot": withWriters, "async_s2": async})
	}
}

// faultCaseBig: a collection whose encoded state spans several s2 blocks (> 1 MiB), so that an
// early destination failure surfaces INSIDE a block callback of the state writer instead of at
// the final flush. After every failed snapshot a row of every block is written under a watchdog.
func faultCaseBig(w *W, idx int, async bool) {
	caseID := fmt.Sprintf("E6:fault-big:%d", idx)
	seed := w.Seed*86028121 + int64(idx)*104395301
	rng := rand.New(rand.NewSource(seed))
	g := newGen(seed+1, "edge")
	c := column.NewCollection(column.Options{Capacity: 1000, Vacuum: 1 << 40})
	defer c.Close()
	c.CreateColumn("s", column.ForString())
	c.CreateColumn("i64", column.ForInt64())
	n := 40000 + rng.Intn(4000)
	c.Query(func(txn *column.Txn) error {
		for i := 0; i < n; i++ {
			txn.Insert(func(r column.Row) error {
				r.SetString("s", g.randBytes(40+rng.Intn(30)))
				r.SetInt64("i64", int64(i))
				return nil
			})
		}
		return nil
	})
	fail := func(detail string, f faultSpec) {
		w.Violate(idx, caseID, fmt.Sprintf("fault %s on a three-block collection with a multi-frame state (%d rows): %s", f, n, detail), "", map[string]any{"idx": idx, "fault": f, "async": async})
	}
	dry := &faultWriter{spec: faultSpec{Mode: "none"}}
	if err := c.Snapshot(dry); err != nil {
		fail("fault-free Snapshot failed: "+err.Error(), dry.spec)
		return
	}
	L, K := dry.written, dry.calls
	specs := []faultSpec{{"bytes", 0}, {"bytes", 10}, {"bytes", 4096}, {"bytes", 300000}, {"bytes", L / 2}, {"bytes", L - 1}, {"forever", 0},
		{"bytesonce", 10}, {"bytesonce", 300000}, {"bytesonce", L / 2}, {"bytesonce", L - 1}}
	for k := 0; k <= K+1 && k < 12; k++ {
		specs = append(specs, faultSpec{"call", k}, faultSpec{"once", k})
	}
	old := debug.SetGCPercent(-1)
	defer debug.SetGCPercent(old)
	runtime.GC()
	fd0, tmp0 := countFDs(), countTemp()
	expect := map[uint32]int64{}
	for si, f := range specs {
		fw := &faultWriter{spec: f}
		err := c.Snapshot(fw)
		w.Stat("faulted_snapshots", 1)
		if fw.failed {
			w.Stat("snapshots_where_destination_failed", 1)
			if err == nil {
				fail("the destination returned an error to a Write but Snapshot returned nil", f)
				return
			}
		} else if err != nil {
			fail("the destination never failed but Snapshot returned "+err.Error(), f)
			return
		}
		// a transaction touching every block must still commit (under a watchdog: a leaked latch would block it forever)
		done := make(chan struct{})
		go func() {
			defer close(done)
			c.Query(func(txn *column.Txn) error {
				for _, off := range []uint32{3, 16384 + 3, 32768 + 3} {
					v := int64(si+1)*1000 + int64(off)
					expect[off] = v
					// two columns: the transaction needs two distinct update buffers from the page pool
					txn.QueryAt(off, func(r column.Row) error {
						r.SetString("s", fmt.Sprintf("post-%d", v))
						r.SetInt64("i64", v)
						return nil
					})
				}
				return nil
			})
		}()
		select {
		case <-done:
		case <-time.After(90 * time.Second):
			fail("after the failed snapshot a transaction that writes one row in every block never commits (90 s)", f)
			w.flush(false)
			os.Exit(77)
		}
		w.Stat("post_fault_commits_checked", 1)
		for off, v := range expect {
			var got int64
			var gs string
			c.QueryAt(off, func(r column.Row) error { got, _ = r.Int64("i64"); gs, _ = r.String("s"); return nil })
			if got != v || gs != fmt.Sprintf("post-%d", v) {
				fail(fmt.Sprintf("row %d reads i64=%d s=%q right after the post-fault transaction, expected %d and \"post-%d\" (a store of a transaction committed after the failed snapshot was lost)", off, got, gs, v, v), f)
				return
			}
		}
	}
	for off, v := range expect {
		var got int64
		var gs string
		c.QueryAt(off, func(r column.Row) error { got, _ = r.Int64("i64"); gs, _ = r.String("s"); return nil })
		if got != v || gs != fmt.Sprintf("post-%d", v) {
			fail(fmt.Sprintf("row %d reads i64=%d s=%q after the post-fault transactions, expected %d and \"post-%d\" (a store of a transaction committed after a failed snapshot was lost)", off, got, gs, v, v), specs[len(specs)-1])
			return
		}
	}
	var good bytes.Buffer
	if err := c.Snapshot(&good); err != nil {
		fail("a later Snapshot to a healthy writer fails: "+err.Error(), specs[len(specs)-1])
		return
	}
	r := column.NewCollection(column.Options{Capacity: 1000, Vacuum: 1 << 40})
	defer r.Close()
	r.CreateColumn("s", column.ForString())
	r.CreateColumn("i64", column.ForInt64())
	if err := r.Restore(bytes.NewReader(good.Bytes())); err != nil || r.Count() != c.Count() {
		fail(fmt.Sprintf("the later healthy snapshot does not restore: err=%v count %d vs %d", err, r.Count(), c.Count()), specs[len(specs)-1])
		return
	}
	w.Stat("followup_snapshots_restored", 1)
	if fd1, tmp1 := countFDs(), countTemp(); fd1 > fd0 || tmp1 > tmp0 {
		fail(fmt.Sprintf("descriptors %d -> %d, TMPDIR entries %d -> %d over %d snapshots (GC disabled)", fd0, fd1, tmp0, tmp1, len(specs)), specs[len(specs)-1])
		return
	}
	w.Stat("leak_censuses", 1)
	w.Stat("multi_frame_state_collections", 1)
	w.Eval(hashOf("fault-big", idx, L, K), true)
	w.StatMax("max_stream_bytes", int64(L))
	w.StatMax("max_write_calls", int64(K))
}

func faultPlan(tier string) []Plan {
	if tier == "thorough" {
		return []Plan{{Cases: 2880, Workers: 16, MaxProcs: 1, Timeout: 120 * time.Minute}, {Cases: 960, Workers: 8, MaxProcs: 4, Timeout: 120 * time.Minute, Recycle: 10}}
	}
	return []Plan{{Cases: 96, Workers: 16, MaxProcs: 1, Timeout: 15 * time.Minute}, {Cases: 24, Workers: 8, MaxProcs: 4, Timeout: 15 * time.Minute, Recycle: 10}}
}

func init() {
	register(&Property{
		ID: "C14", Level: "fault_enumeration",
		Rule: "one case = one seeded collection (empty / single block / three sparse blocks) x a list of destination faults: fail at byte budget n for every n of the stream when it is short (else a seeded sample plus 0,1,L-1,L), fail from write call k on and fail only at call k for every call index of a fault-free dry run (+1), fail forever; half of the cases commit transactions while the failing snapshot runs; after each fault: error reported iff the destination failed, a transaction commits, (every 7th fault, and always on empty collections) full dump == model and a healthy snapshot restores to it; /proc/self/fd and the private TMPDIR are counted every 50 snapshots with the garbage collector disabled; phase 2 repeats a slice with GOMAXPROCS=4 (asynchronous s2 writer); distinct = (case, stream length, call count)",
		Assume: []string{"faults are injected at the io.Writer passed to Snapshot (the temp-file recorder itself is not faulted: the commit path ignores its errors by design and no property speaks about them)",
			"writers obey the io.Writer contract (a short write comes with an error)"},
		Plan:      faultPlan,
		Run:       func(w *W, phase, idx int) { faultCase(w, idx, phase == 1) },
		MinEvents: map[string]int64{"faulted_snapshots": 500, "snapshots_where_destination_failed": 300, "leak_censuses": 10, "followup_snapshots_restored": 50},
	})
}
