package main

// e3_stream.go — E3 parallel stress for the change stream, replicas and snapshots
// (C06, C08, C15): many writers under real parallelism; every transaction stamps a unique id
// into the marker row of every block it changes, so the recording logger (called inside the
// block latch) can name the transaction behind each commit; apply order per block = arrival
// order at the logger.

import (
	"bytes"
	"fmt"
	"strings"
	"sync"
	"sync/atomic"
	"time"

	"github.com/kelindar/column"
	"github.com/kelindar/column/commit"
)

var streamCols = []ColSpec{{"tx", KInt64}, {"x", KInt64}, {"m", KInt64}, {"im", KInt64Mul}, {"s", KString}, {"e", KEnum}, {"b", KBool}, {"rm", KRecordMerge},
	{"p0", KInt64}, {"p1", KInt64}, {"p2", KInt64}, {"p3", KInt64}, {"p4", KInt64}, {"p5", KInt64}, {"p6", KInt64}, {"p7", KInt64},
	{"ni", KInt}, {"ni16", KInt16}, {"ni32", KInt32}, {"nu", KUint}, {"nu16", KUint16}, {"nu32", KUint32}, {"nu64", KUint64}, {"nf32", KFloat32}, {"nf64", KFloat64}}

var streamNumCols = func() []ColSpec {
	var out []ColSpec
	for _, c := range streamCols {
		if len(c.Name) > 1 && c.Name[0] == 'n' {
			out = append(out, c)
		}
	}
	return out
}()

var streamIdx = []IndexSpec{{Name: "m_odd", Col: "m", P: Pred{Op: "int>=", I: 1000}}, {Name: "x_neg", Col: "x", P: Pred{Op: "int<", I: 0}}}

const streamBlocks = 3

func streamRows() []uint32 {
	var rows []uint32
	for b := uint32(0); b < streamBlocks; b++ {
		for i := uint32(0); i < 6; i++ {
			rows = append(rows, b<<14+i) // row 0 of each block is the marker row
		}
	}
	return rows
}

func streamCollection(logger commit.Logger) *column.Collection {
	opts := column.Options{Capacity: 64, Vacuum: 1 << 40}
	if logger != nil {
		opts.Writer = logger
	}
	c := column.NewCollection(opts)
	for _, cs := range streamCols {
		c.CreateColumn(cs.Name, makeColumn(cs.Kind))
	}
	for _, ix := range streamIdx {
		p := ix.P
		c.CreateIndex(ix.Name, ix.Col, func(r column.Reader) bool { return p.onReader(r) })
	}
	for b := uint32(0); b < streamBlocks; b++ {
		var rows []uint32
		for _, r := range streamRows() {
			if r>>14 == b {
				rows = append(rows, r)
			}
		}
		if err := c.Replay(setupCommit(b, rows, false)); err != nil {
			panic(err)
		}
	}
	return c
}

func streamModel() *Model {
	m := newModel()
	for _, cs := range streamCols {
		m.addCol(cs)
	}
	m.Idx = append(m.Idx, streamIdx...)
	for _, off := range streamRows() {
		m.Live[off] = true
		m.Cells["x"][off] = Val{B: 0}
		m.Cells["m"][off] = Val{B: 0}
		m.Cells["im"][off] = Val{B: 1}
	}
	return m
}

type streamCommit struct {
	Seq   int64
	Tx    int64
	Block uint32
	ID    uint64
}

type streamSnap struct {
	call, ret int64
	data      []byte
	err       error
}

type streamRun struct {
	P       *column.Collection
	seq     int64
	mu      sync.Mutex
	log     []streamCommit
	ch      commit.Channel
	specs   sync.Map // txid -> *TxnSpec (executed)
	acks    sync.Map // txid -> ack seq
	begins  sync.Map // txid -> seq taken when the body is about to return (its commits begin after that)
	aborted sync.Map // txid -> true
	active  bool
	bad     atomic.Value // first logger-side problem
}

func (r *streamRun) tick() int64 { return atomic.AddInt64(&r.seq, 1) }

// Append runs inside the block latch: it reads the transaction id from the "tx" buffer of the
// commit's block, records the arrival, and forwards a clone through the real commit.Channel.
func (r *streamRun) Append(c commit.Commit) error {
	if !r.active {
		return nil
	}
	tx := int64(-1)
	rd := commit.NewReader()
	for _, u := range c.Updates {
		if u.Column != "tx" {
			continue
		}
		rd.Range(u, c.Chunk, func(rr *commit.Reader) {
			for rr.Next() {
				if rr.Type == commit.Put {
					tx = rr.Int64()
				}
			}
		})
	}
	r.mu.Lock()
	r.log = append(r.log, streamCommit{Seq: r.tick(), Tx: tx, Block: uint32(c.Chunk), ID: c.ID})
	r.mu.Unlock()
	return r.ch.Append(c)
}

type streamResult struct {
	run       *streamRun
	snaps     []streamSnap
	replica   *column.Collection
	final     *State
	repl      *State
	sv        schemaView
	m0        *Model
	commits   int
	txns      int
	overlap   int64
	replayErr error
}

// streamWorkload runs writers (+ optional snapshot loop) and returns everything the oracles need.
func streamWorkload(w *W, idx int, writers, txnsPer int, snapshots int) *streamResult {
	r := &streamRun{ch: make(commit.Channel, 256)}
	r.P = streamCollection(r)
	m0 := streamModel()
	replica := streamCollection(nil)
	res := &streamResult{run: r, replica: replica, m0: m0, sv: m0.view(nil)}
	hook := &stressHook{delayPct: 15, seed: w.Seed + int64(idx)}
	hook.install(r.P)
	defer hook.remove()
	r.active = true
	// replica: drains the channel in arrival order
	drained := make(chan struct{})
	go func() {
		defer close(drained)
		for c := range r.ch {
			if err := replica.Replay(c); err != nil && res.replayErr == nil {
				res.replayErr = err
			}
		}
	}()
	var left int32 = int32(writers)
	var nextTx int64
	var fns []func()
	for wi := 0; wi < writers; wi++ {
		wi := wi
		fns = append(fns, func() {
			defer atomic.AddInt32(&left, -1)
			rng := rngFor(w.Seed, 30, idx, wi)
			var mine []uint32 // rows this writer inserted and still owns
			own := fmt.Sprintf("p%d", wi%8)
			for n := 0; n < txnsPer; n++ {
				tx := atomic.AddInt64(&nextTx, 1)
				spec := &TxnSpec{}
				abort := rng.Intn(12) == 0
				kind := rng.Intn(10)
				nrows := 1 + rng.Intn(3)
				err := r.P.Query(func(txn *column.Txn) error {
					touched := map[uint32]bool{}
					var touchOrder []uint32 // blocks in the order this transaction first touched them
					do := func(op Op) {
						spec.Ops = append(spec.Ops, op)
						o := &spec.Ops[len(spec.Ops)-1]
						o.Done = true
						rowFn := func(row column.Row) error {
							o.GotOff, o.HasOff = row.Index(), true
							for _, wr := range o.W {
								writeCell(txn, row, m0.col(wr.Col), wr)
							}
							return nil
						}
						switch o.T {
						case "ins":
							txn.Insert(rowFn)
						case "at":
							o.GotOff, o.HasOff = o.Off, true
							txn.QueryAt(o.Off, rowFn)
						case "del":
							o.GotOff, o.HasOff = o.Off, true
							txn.DeleteAt(o.Off)
						}
						if !touched[o.GotOff>>14] {
							touchOrder = append(touchOrder, o.GotOff>>14)
						}
						touched[o.GotOff>>14] = true
					}
					switch {
					case kind == 0 && len(mine) < 40:
						do(ins(put(own, tx), put("x", -tx)))
						mine = append(mine, spec.Ops[len(spec.Ops)-1].GotOff)
					case kind == 1 && len(mine) > 0:
						do(del(mine[len(mine)-1]))
						if !abort {
							mine = mine[:len(mine)-1]
						}
					default:
						for j := 0; j < nrows; j++ {
							b := uint32(rng.Intn(streamBlocks))
							row := b<<14 + 1 + uint32(rng.Intn(5))
							ws := []Write{put(own, tx), add("m", 1+int64(wi))}
							if rng.Intn(3) == 0 {
								ws = append(ws, add("im", int64(rng.Intn(6)))) // a zero delta is not the identity of v*3+d
							}
							if rng.Intn(4) == 0 {
								ws = append(ws, put("x", tx*(1-2*int64(rng.Intn(2)))))
							}
							if rng.Intn(5) == 0 {
								ws = append(ws, Write{Col: "s", Merge: true, V: Val{S: fmt.Sprintf("t%d", tx)}})
							}
							if rng.Intn(2) == 0 {
								// a merge on a column of one of the other numeric kinds (small deltas: exact in float32)
								nc := streamNumCols[rng.Intn(len(streamNumCols))]
								ws = append(ws, addK(nc.Name, nc.Kind, int64(rng.Intn(4)))) // incl. zero deltas (onto "no value": the cell then holds 0)
							}
							if rng.Intn(3) == 0 {
								// order-sensitive record merge (user merge function, decode/merge/encode) - rows of all three blocks
								ws = append(ws, rmg(uint32(1+rng.Intn(9)), ""))
							}
							do(at(row, ws...))
						}
					}
					if abort && kind == 0 && len(mine) > 0 {
						mine = mine[:len(mine)-1]
					}
					// stamp the marker row of every block this transaction changed
					// (in first-touch order, so that the marker column visits the blocks in the same - possibly
					// descending - order as the other columns of the transaction)
					for _, b := range append([]uint32{}, touchOrder...) {
						do(at(b<<14, put("tx", tx)))
					}
					if abort {
						return errAbort
					}
					r.begins.Store(tx, r.tick()) // every block commit of this transaction begins after this point
					return nil
				})
				if (err != nil) != abort {
					r.bad.Store(fmt.Sprintf("transaction %d returned %v (abort=%v)", tx, err, abort))
				}
				r.specs.Store(tx, spec)
				if abort {
					r.aborted.Store(tx, true)
				} else {
					r.acks.Store(tx, r.tick())
				}
				if atomic.LoadInt64(&hook.snapshots) > 0 {
					atomic.AddInt64(&res.overlap, 1)
				}
			}
		})
	}
	if snapshots > 0 {
		fns = append(fns, func() {
			for i := 0; i < snapshots && atomic.LoadInt32(&left) > 0; i++ {
				var buf bytes.Buffer
				s := streamSnap{call: r.tick()}
				s.err = r.P.Snapshot(&buf)
				s.ret = r.tick()
				s.data = buf.Bytes()
				res.snaps = append(res.snaps, s)
				time.Sleep(time.Millisecond)
			}
		})
	}
	parallel(fns...)
	r.active = false
	close(r.ch)
	<-drained
	res.final = dumpState(r.P, res.sv)
	res.repl = dumpState(replica, res.sv)
	res.commits = len(r.log)
	res.txns = writers * txnsPer
	return res
}

func (res *streamResult) close() {
	res.run.P.Close()
	res.replica.Close()
}

func (res *streamResult) spec(tx int64) *TxnSpec {
	if v, ok := res.run.specs.Load(tx); ok {
		return v.(*TxnSpec)
	}
	return nil
}

// oracleStreamE3: C15
func (res *streamResult) oracleStream() string {
	if b := res.run.bad.Load(); b != nil {
		return b.(string)
	}
	ids := map[uint64]bool{}
	last := map[uint32]uint64{}
	emitted := map[[2]int64]int{}
	for _, c := range res.run.log {
		if c.ID == 0 {
			return fmt.Sprintf("commit of transaction %d for block %d carries ID 0", c.Tx, c.Block)
		}
		if ids[c.ID] {
			return fmt.Sprintf("commit ID %d emitted twice", c.ID)
		}
		ids[c.ID] = true
		if c.ID <= last[c.Block] {
			return fmt.Sprintf("block %d: commit ID ..%d (transaction %d) reached the logger after ID ..%d", c.Block, c.ID%1000000, c.Tx, last[c.Block]%1000000)
		}
		last[c.Block] = c.ID
		if c.Tx < 0 {
			return fmt.Sprintf("a commit for block %d carries no transaction stamp (emitted for a block the transaction did not change?)", c.Block)
		}
		emitted[[2]int64{c.Tx, int64(c.Block)}]++
	}
	var bad string
	res.run.specs.Range(func(k, v any) bool {
		tx := k.(int64)
		spec := v.(*TxnSpec)
		_, aborted := res.run.aborted.Load(tx)
		want := map[uint32]bool{}
		if !aborted {
			want = changedBlocks(spec.Ops)
		}
		for b := range want {
			if n := emitted[[2]int64{tx, int64(b)}]; n != 1 {
				bad = fmt.Sprintf("transaction %d (%s) changed block %d and emitted %d commits for it", tx, spec.String(), b, n)
				return false
			}
		}
		for b := int64(0); b < streamBlocks+2; b++ {
			if n := emitted[[2]int64{tx, b}]; n > 0 && !want[uint32(b)] {
				bad = fmt.Sprintf("transaction %d (%s, rolled back=%v) emitted %d commit(s) for block %d", tx, spec.String(), aborted, n, b)
				return false
			}
		}
		return true
	})
	return bad
}

// oracleReplicaE3: C06
func (res *streamResult) oracleReplica() string {
	if res.replayErr != nil {
		return "Replay failed: " + res.replayErr.Error()
	}
	return cmpStates(res.final, res.repl, "primary", "channel-replica", res.sv)
}

// oracleFinal: the primary equals the fold of all commits in apply order (C09-style, also anchors the fold)
func (res *streamResult) foldAll(visit func(b uint32, k int, m *Model)) {
	byBlock := map[uint32][]streamCommit{}
	for _, c := range res.run.log {
		byBlock[c.Block] = append(byBlock[c.Block], c)
	}
	for b, ord := range byBlock {
		cur := modelBlock(res.m0, b)
		cur.Trig = nil
		visit(b, 0, cur)
		for k, c := range ord {
			if spec := res.spec(c.Tx); spec != nil {
				cur.Apply(opsInBlock(*spec, b))
			}
			visit(b, k+1, cur)
		}
	}
}

func (res *streamResult) oracleFinal() string {
	counts := map[uint32]int{}
	applied := map[[2]int64]bool{}
	for _, c := range res.run.log {
		counts[c.Block]++
		applied[[2]int64{c.Tx, int64(c.Block)}] = true
	}
	var bad string
	// a committed transaction whose changes to a block were never applied would be missing from both sides of the fold
	res.run.specs.Range(func(k, v any) bool {
		tx := k.(int64)
		if _, aborted := res.run.aborted.Load(tx); aborted {
			return true
		}
		for b := range changedBlocks(v.(*TxnSpec).Ops) {
			if !applied[[2]int64{tx, int64(b)}] {
				bad = fmt.Sprintf("transaction %d (%s) committed, but its changes to block %d were never applied (no commit for that block)", tx, v.(*TxnSpec).String(), b)
				return false
			}
		}
		return true
	})
	if bad != "" {
		return bad
	}
	res.foldAll(func(b uint32, k int, m *Model) {
		if k == counts[b] && bad == "" {
			if d := cmpBlock(res.final, m, b); d != "" {
				bad = fmt.Sprintf("block %d after all writers joined: %s (expected = fold of %d commits in apply order)", b, d, k)
			}
		}
	})
	return bad
}

// oracleSnapshotsE3: C08 — every restored block equals a prefix state within its window.
func (res *streamResult) oracleSnapshots(w *W) (string, bool) {
	sawKF := false
	for si, s := range res.snaps {
		if s.err != nil {
			return fmt.Sprintf("snapshot %d failed beside writers: %v", si, s.err), false
		}
		c := streamCollectionEmpty()
		err := c.Restore(bytes.NewReader(s.data))
		if err != nil {
			c.Close()
			return fmt.Sprintf("snapshot %d does not restore: %v", si, err), false
		}
		st := dumpState(c, res.sv)
		c.Close()
		byBlock := map[uint32][]streamCommit{}
		for _, cm := range res.run.log {
			byBlock[cm.Block] = append(byBlock[cm.Block], cm)
		}
		window := map[uint32][2]int{}
		for b := uint32(0); b < streamBlocks; b++ {
			// A: commits acknowledged before Snapshot was called must be in. B: a commit whose application
			// began after Snapshot returned must be out, and with it everything applied after it. "Began"
			// is bounded from below by the moment the transaction body returned (the logger's arrival
			// stamp is NOT usable here: the library appends to the snapshot recorder before it calls the
			// user's logger, so a commit can be in the tail although it reaches the logger after Snapshot
			// returned - an earlier version of this oracle raised false alarms on a loaded machine).
			A, B := 0, len(byBlock[b])
			for i, cm := range byBlock[b] {
				if ack, ok := res.run.acks.Load(cm.Tx); ok && ack.(int64) < s.call {
					A = i + 1
				}
			}
			for i, cm := range byBlock[b] {
				if bg, ok := res.run.begins.Load(cm.Tx); ok && bg.(int64) > s.ret {
					B = i
					break
				}
			}
			if B < A {
				B = A
			}
			window[b] = [2]int{A, B}
		}
		matched := map[uint32]bool{}
		kfMatched := map[uint32]bool{}
		firstDiff := map[uint32]string{}
		reserved := map[uint32]bool{}
		res.run.specs.Range(func(k, v any) bool {
			for _, o := range v.(*TxnSpec).Ops {
				if o.T == "ins" && o.HasOff {
					reserved[o.GotOff] = true
				}
			}
			return true
		})
		res.foldAll(func(b uint32, k int, m *Model) {
			win, ok := window[b]
			if !ok || matched[b] || k < win[0] || k > win[1] {
				return
			}
			d := cmpBlock(st, m, b)
			if d == "" {
				matched[b] = true
				return
			}
			if firstDiff[b] == "" {
				firstDiff[b] = fmt.Sprintf("k=%d: %s", k, d)
			}
			// KF-INFLIGHT-INSERT signature: bare rows at reserved offsets
			stripped := *st
			stripped.Rows = nil
			removed := 0
			for _, off := range st.Rows {
				bare := true
				for _, cs := range res.sv.Cols {
					if _, has := st.Cells[cs.Name][off]; has {
						bare = false
					}
				}
				if off>>14 == b && reserved[off] && bare {
					removed++
					continue
				}
				stripped.Rows = append(stripped.Rows, off)
			}
			if removed > 0 && cmpBlock(&stripped, m, b) == "" {
				kfMatched[b] = true
			}
		})
		for b := uint32(0); b < streamBlocks; b++ {
			w.Stat("snapshot_block_windows_checked", 1)
			w.Stat("snapshot_window_width_total", int64(window[b][1]-window[b][0]))
			if matched[b] {
				continue
			}
			if kfMatched[b] {
				sawKF = true
				continue
			}
			// post-mortem detail (the schedule cannot be replayed): restored rows, the commits of the window
			// with their operations, and the difference against every prefix state of the window
			var sb strings.Builder
			fmt.Fprintf(&sb, "snapshot %d (call seq %d, return seq %d): restored block %d equals no prefix state S[%d..%d] of the %d commits applied to it; first: %s\n", si, s.call, s.ret, b, window[b][0], window[b][1], len(byBlock[b]), firstDiff[b])
			sbk := blockOf(st, b)
			fmt.Fprintf(&sb, "restored rows of the block: %v\n", sbk.Rows)
			for _, off := range sbk.Rows {
				fmt.Fprintf(&sb, "  row %d:", off)
				for _, cs := range res.sv.Cols {
					if v, ok := sbk.Cells[cs.Name][off]; ok {
						fmt.Fprintf(&sb, " %s=%s", cs.Name, v.show(cs.Kind))
					}
				}
				if reserved[off] {
					sb.WriteString(" (offset handed out by an insert of the workload)")
				}
				sb.WriteString("\n")
			}
			lo := window[b][0] - 3
			if lo < 0 {
				lo = 0
			}
			for i := lo; i < window[b][1]+3 && i < len(byBlock[b]); i++ {
				cm := byBlock[b][i]
				ack, _ := res.run.acks.Load(cm.Tx)
				desc := "?"
				if sp := res.spec(cm.Tx); sp != nil {
					desc = TxnSpec{Ops: opsInBlock(*sp, b)}.String()
				}
				fmt.Fprintf(&sb, "  commit #%d seq=%d id=..%d tx=%d ack=%v %s\n", i+1, cm.Seq, cm.ID%1000000, cm.Tx, ack, desc)
			}
			res.foldAll(func(bb uint32, k int, m *Model) {
				if bb == b && k >= window[b][0] && k <= window[b][1] {
					fmt.Fprintf(&sb, "  vs S[%d]: %s\n", k, cmpBlock(st, m, b))
				}
			})
			out := sb.String()
			if len(out) > 12000 {
				out = out[:12000] + "..."
			}
			return out, false
		}
	}
	if sawKF {
		return "a restored snapshot contains rows reserved by in-flight inserts (no values)", true
	}
	return "", false
}

func streamCollectionEmpty() *column.Collection {
	c := column.NewCollection(column.Options{Capacity: 64, Vacuum: 1 << 40})
	for _, cs := range streamCols {
		c.CreateColumn(cs.Name, makeColumn(cs.Kind))
	}
	for _, ix := range streamIdx {
		p := ix.P
		c.CreateIndex(ix.Name, ix.Col, func(r column.Reader) bool { return p.onReader(r) })
	}
	return c
}

// streamRound is one E3 case for C06 / C08 / C15.
func streamRound(w *W, idx int, prop string) {
	caseID := fmt.Sprintf("E3:stream:%s:round%d", prop, idx)
	w.Begin(idx, caseID)
	writers := 8
	if idx%2 == 1 {
		writers = 12
	}
	per := scale(w, 500, 1200)
	snaps := 0
	if prop == "C08" {
		snaps = 30
		writers = 6
	}
	if prop == "C15" && idx%2 == 1 {
		snaps = 15 // the stream must not depend on a snapshot being in progress
	}
	res := streamWorkload(w, idx, writers, per, snaps)
	defer res.close()
	w.Stat("stress_transactions", int64(res.txns))
	w.Stat("stress_commits_observed", int64(res.commits))
	w.Stat("stress_rounds", 1)
	replay := map[string]any{"idx": idx, "race": true, "engine": "E3"}
	// anchor for every property: the fold of the recorded apply order reproduces the primary
	if d := res.oracleFinal(); d != "" {
		key := "[fold] "
		w.Violate(idx, caseID, key+d, "", replay)
		return
	}
	switch prop {
	case "C15":
		if d := res.oracleStream(); d != "" {
			w.Violate(idx, caseID, "[stream] "+d, "", replay)
		}
	case "C06":
		if d := res.oracleReplica(); d != "" {
			w.Violate(idx, caseID, "[replica] "+d, "", replay)
		}
		w.Stat("stress_replica_comparisons", 1)
	case "C08":
		w.Stat("stress_snapshots", int64(len(res.snaps)))
		w.Stat("stress_commits_while_a_snapshot_was_running", res.overlap)
		if d, kf := res.oracleSnapshots(w); d != "" {
			key := ""
			if kf {
				key = "KF-INFLIGHT-INSERT"
			}
			w.Violate(idx, caseID, "[snapshot] "+d, key, replay)
		}
	}
	w.Eval(hashOf("stream", prop, idx, res.commits), res.commits > 100)
	if idx == 0 {
		n := len(res.run.log)
		if n > 5 {
			n = 5
		}
		w.Sample(map[string]any{"round": idx, "writers": writers, "txns_per_writer": per, "commits": res.commits, "snapshots": len(res.snaps), "first_commits": res.run.log[:n]})
	}
}

func streamPhaseFor(prop string, quick, thorough int) (func(string) Plan, func(*W, int)) {
	return func(tier string) Plan {
			n := quick
			if tier == "thorough" {
				n = thorough
			}
			return Plan{Cases: n, Workers: 2, Race: true, MaxProcs: 8, Timeout: 40 * time.Minute, HangIsViol: true}
		},
		func(w *W, idx int) {
			withWatchdog(w, idx, fmt.Sprintf("E3:stream:%s:round%d", prop, idx), 5*time.Minute, func() { streamRound(w, idx, prop) })
		}
}
