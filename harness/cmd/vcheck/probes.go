package main

// probes.go — directed probes for the recorded known findings. Each probe executes the exact
// trigger of a finding (which the random generators exclude, DESIGN.md 3.3) and observes the
// symptom of the property it runs under, through that property's own oracle. If the symptom
// shows, a violation carrying the finding's key is raised (printed as KNOWN-FINDING while the
// finding is listed in known_findings.txt); if the defect has been repaired the probe is silent.

import (
	"fmt"
	"sync"
	"time"

	"github.com/kelindar/column"
	"github.com/kelindar/column/commit"
)

type probe struct {
	name string
	run  func(w *W, idx int, prop string)
}

var probesByProp = map[string][]probe{
	"C01": {{"varlen-merge-sections/value", probeVarlenSections}},
	"C09": {{"varlen-merge-sections/merge-lost", probeVarlenSections}},
	"C03": {{"varlen-merge-then-put/index", probeVarlen}, {"revisited-block-after-buffer-growth/index", probeRevisit}},
	"C16": {{"varlen-merge-then-put/sorted", probeVarlen}, {"revisited-block-after-buffer-growth/sorted", probeRevisit}},
	"C19": {{"varlen-merge-then-put/trigger", probeVarlen}, {"revisited-block-after-buffer-growth/trigger", probeRevisit}},
	"C06": {{"varlen-merge-then-put/replica", probeVarlen}, {"key-delete-beside-rekey-in-another-block/replica", probeKeyDeleteRekey}},
	"C11": {{"write-then-delete-orphan", probeWriteThenDelete}},
	"C12": {{"two-creating-ops-one-key", probeKeyTwice}},
}

func runProbe(w *W, idx int, prop string) {
	ps := probesByProp[prop]
	if idx >= len(ps) {
		return
	}
	p := ps[idx]
	w.Begin(idx, "probe:"+p.name)
	defer func() {
		if r := recover(); r != nil {
			w.Violate(idx, "probe:"+p.name, fmt.Sprintf("panic in probe: %v", r), "", map[string]any{"phase": 1, "idx": idx})
		}
	}()
	p.run(w, idx, prop)
	w.Eval(hashOf("probe", p.name), true)
	w.Stat("directed_probes", 1)
}

// probeVarlen: a length-changing string merge followed by a store to the same cell in the
// same transaction (KF-VARLEN-MERGE-REORDER), observed through index / sorted index / trigger /
// stream replica depending on the property.
func probeVarlen(w *W, idx int, prop string) {
	wd := newWorld(1000, false, true)
	defer wd.Close()
	wd.createColumn(ColSpec{"sc", KStringCat})
	wd.createIndex(IndexSpec{Name: "long", Col: "sc", P: Pred{Op: "len>", I: 3}})
	wd.createSortIndex(SortSpec{Name: "by_sc", Col: "sc"})
	wd.createTrigger(TrigSpec{Name: "tg", Col: "sc"})
	h := &history{w: w, idx: idx, wd: wd, stats: map[string]int64{}, lastID: map[uint32]uint64{}, caseID: "probe:varlen", cfg: e1Cfg{Oracles: oracleSet()}}
	t1 := TxnSpec{Ops: []Op{{T: "ins", W: []Write{{Col: "sc", V: Val{S: "ab"}}}}, {T: "ins", W: []Write{{Col: "sc", V: Val{S: "mm"}}}}}}
	wd.execTxn(wd.P, &t1, false, nil)
	wd.M.Apply(t1.Ops)
	h.feedReplica()
	wd.cutTriggers()
	row := t1.Ops[0].GotOff
	t2 := TxnSpec{Ops: []Op{{T: "at", Off: row, W: []Write{{Col: "sc", Merge: true, V: Val{S: "cdef"}}, {Col: "sc", V: Val{S: "zz"}}}}}}
	wd.execTxn(wd.P, &t2, false, nil)
	want := wd.M.Apply(t2.Ops)
	h.feedReplica()
	got := wd.cutTriggers()
	sv := wd.M.view(nil)
	st := dumpState(wd.P, sv)
	const kf = "KF-VARLEN-MERGE-REORDER"
	desc := "txn{at(row) sc+=\"cdef\" (length-changing merge); sc=\"zz\"} on a row holding \"ab\": "
	if v := st.Cells["sc"][row]; v.S != "zz" {
		w.Violate(idx, "probe:varlen", desc+"the primary itself does not hold the last store: "+v.S, "", map[string]any{"phase": 1, "idx": idx})
		return
	}
	var d string
	switch prop {
	case "C03":
		d = cmpIndexes(st, sv)
	case "C16":
		d = cmpSorted(st, sv)
	case "C19":
		d = cmpTriggers(wd.M, got, want, false)
	case "C06":
		d = cmpStates(st, dumpState(wd.R, sv), "primary", "replica", sv)
	}
	if d != "" {
		w.Violate(idx, "probe:varlen", desc+d, kf, map[string]any{"phase": 1, "idx": idx})
	}
}

// probeVarlenSections: two length-changing merges on one cell of a row in block 1, separated in the
// column buffer by an operation on another block (so that they lie in two sections of block 1):
// the Put appended for the first merge lands inside the second section and is applied after the
// second merge - the primary itself loses the second merge (KF-VARLEN-MERGE-REORDER, multi-section form).
func probeVarlenSections(w *W, idx int, prop string) {
	wd := newWorld(64, false, false)
	defer wd.Close()
	wd.createColumn(ColSpec{"sc", KStringCat})
	wd.createColumn(ColSpec{"x", KInt})
	// a row in block 0 and a row in block 1 (the latter through Replay of a crafted commit)
	t0 := TxnSpec{Ops: []Op{{T: "ins", W: []Write{{Col: "sc", V: Val{S: "a0"}}}}}}
	wd.execTxn(wd.P, &t0, false, nil)
	wd.M.Apply(t0.Ops)
	row0 := t0.Ops[0].GotOff
	const row1 = 16384 + 7
	mk := func(name string) *commit.Buffer { b := commit.NewBuffer(64); b.Reset(name); return b }
	rb, sb := mk("row"), mk("sc")
	rb.PutOperation(commit.Insert, row1)
	sb.PutString(commit.Put, row1, "b0")
	if err := wd.P.Replay(commit.Commit{ID: 1, Chunk: 1, Updates: []*commit.Buffer{rb, sb}}); err != nil {
		panic(err)
	}
	wd.M.Live[row1] = true
	wd.M.Cells["sc"][row1] = Val{S: "b0"}
	t := TxnSpec{Ops: []Op{
		{T: "at", Off: row1, W: []Write{{Col: "sc", Merge: true, V: Val{S: "-first"}}}},
		{T: "at", Off: row0, W: []Write{{Col: "sc", V: Val{S: "other block"}}}},
		{T: "at", Off: row1, W: []Write{{Col: "sc", Merge: true, V: Val{S: "-second"}}}},
	}}
	wd.execTxn(wd.P, &t, false, nil)
	wd.M.Apply(t.Ops)
	st := dumpState(wd.P, wd.M.view(nil))
	if d := cmpValues(st, wd.M); d != "" {
		w.Violate(idx, "probe:varlen-sections", "txn{at(block-1 row) sc+=\"-first\"; at(block-0 row) sc=...; at(block-1 row) sc+=\"-second\"} (concatenating merge): "+d,
			"KF-VARLEN-MERGE-REORDER", map[string]any{"phase": 1, "idx": idx})
	}
}

// probeWriteThenDelete: store to and delete of the same row in one transaction, then an
// insert that reuses the offset without storing that column (KF-WRITE-THEN-DELETE-ORPHAN).
func probeWriteThenDelete(w *W, idx int, prop string) {
	for _, k := range []Kind{KInt, KString, KBool, KEnum} {
		wd := newWorld(64, false, false)
		wd.createColumn(ColSpec{"x", k})
		wd.createColumn(ColSpec{"y", KInt})
		g := newGen(1, "small")
		val := g.value(ColSpec{"x", k})
		if k.Numeric() {
			val = Val{B: 5}
		}
		t1 := TxnSpec{Ops: []Op{{T: "ins", W: []Write{{Col: "y", V: Val{B: 1}}}}}}
		wd.execTxn(wd.P, &t1, false, nil)
		wd.M.Apply(t1.Ops)
		row := t1.Ops[0].GotOff
		// the trigger: write x on the row and delete the row in the same transaction
		wd.P.Query(func(txn *column.Txn) error {
			txn.QueryAt(row, func(r column.Row) error {
				writeCell(txn, r, ColSpec{"x", k}, Write{Col: "x", V: val})
				return nil
			})
			txn.DeleteAt(row)
			return nil
		})
		delete(wd.M.Live, row)
		for _, c := range wd.M.Cols {
			delete(wd.M.Cells[c.Name], row)
		}
		t3 := TxnSpec{Ops: []Op{{T: "ins", W: []Write{{Col: "y", V: Val{B: 2}}}}}}
		wd.execTxn(wd.P, &t3, false, nil)
		wd.M.Apply(t3.Ops)
		st := dumpState(wd.P, wd.M.view(nil))
		reused := t3.Ops[0].GotOff == row
		d := cmpValues(st, wd.M)
		if d == "" {
			d = cmpLive(st, wd.M)
		}
		if d != "" {
			key := ""
			if reused {
				key = "KF-WRITE-THEN-DELETE-ORPHAN"
			}
			w.Violate(idx, "probe:write-then-delete", fmt.Sprintf("Query{QueryAt(%d,{set x(%s)}); DeleteAt(%d)} then an insert reusing offset %d that does not store x: %s", row, k, row, t3.Ops[0].GotOff, d),
				key, map[string]any{"phase": 1, "idx": idx})
		}
		wd.Close()
	}
}

// probeKeyTwice: two creating operations on one absent key inside one transaction
// (KF-KEY-CHECK-THEN-ACT, single-transaction form).
func probeKeyTwice(w *W, idx int, prop string) {
	for _, second := range []string{"inskey", "upskey", "setkey"} {
		wd := newWorld(64, false, false)
		wd.createColumn(ColSpec{"k", KKey})
		wd.createColumn(ColSpec{"v", KInt})
		var err error
		wd.P.Query(func(txn *column.Txn) error {
			err = txn.InsertKey("k", func(r column.Row) error { r.SetInt("v", 1); return nil })
			if err != nil {
				return err
			}
			switch second {
			case "inskey":
				err = txn.InsertKey("k", func(r column.Row) error { r.SetInt("v", 2); return nil })
			case "upskey":
				err = txn.UpsertKey("k", func(r column.Row) error { r.SetInt("v", 2); return nil })
			case "setkey":
				err = txn.InsertKey("other", func(r column.Row) error { r.SetInt("v", 2); r.SetKey("k"); return nil })
			}
			return nil // errors of the second operation are not propagated: the transaction commits
		})
		sv := schemaView{Cols: wd.M.Cols, KeyCol: "k", Keys: []string{"k", "other"}}
		st := dumpState(wd.P, sv)
		holders := 0
		for _, off := range st.Rows {
			if v, ok := st.Cells["k"][off]; ok && v.S == "k" {
				holders++
			}
		}
		if holders > 1 {
			w.Violate(idx, "probe:key-twice", fmt.Sprintf("one transaction: InsertKey(\"k\") then %s on the same absent key (second op returned %v): %d live rows hold key \"k\"", second, err, holders),
				"KF-KEY-CHECK-THEN-ACT", map[string]any{"phase": 1, "idx": idx})
		}
		wd.Close()
	}
}

// probeKeyDeleteRekey: writer A deletes the row holding key "K" (block 0) and updates another row
// of block 0 in the same transaction; while A's commit is between its row-marker pass (key "K"
// already removed from the lookup table) and its append to the stream, writer B gives the
// now-free key "K" to a row of block 1 and commits. B touches block 1 only, so nothing orders it
// behind A: its commit reaches the stream first. A replica replaying "B, then A" must still
// resolve "K" to B's row, as the primary does. The schedule is forced at the lock-free hook
// point commit.betweenColumns (A holds the latch of block 0 only).
func probeKeyDeleteRekey(w *W, idx int, prop string) {
	lg := &recLogger{}
	mk := func(wr commit.Logger) *column.Collection {
		o := column.Options{Capacity: 64, Vacuum: 1 << 40}
		if wr != nil {
			o.Writer = wr
		}
		c := column.NewCollection(o)
		c.CreateColumn("k", column.ForKey())
		c.CreateColumn("v", column.ForInt64())
		return c
	}
	P, R := mk(lg), mk(nil)
	defer P.Close()
	defer R.Close()
	for i, k := range []string{"K", "L"} {
		v := int64(i + 1)
		if err := P.InsertKey(k, func(r column.Row) error { r.SetInt64("v", v); return nil }); err != nil {
			panic(err)
		}
	}
	const rowJ = 16384 + 5
	for _, c := range []*column.Collection{P, R} {
		mkb := func(name string) *commit.Buffer { b := commit.NewBuffer(64); b.Reset(name); return b }
		rb, kb, vb := mkb("row"), mkb("k"), mkb("v")
		rb.PutOperation(commit.Insert, rowJ)
		kb.PutString(commit.Put, rowJ, "J")
		vb.PutInt64(commit.Put, rowJ, 9)
		if err := c.Replay(commit.Commit{ID: 1, Chunk: 1, Updates: []*commit.Buffer{rb, kb, vb}}); err != nil {
			panic(err)
		}
	}
	feed := func() {
		for _, cm := range lg.take() {
			if err := R.Replay(cm); err != nil {
				panic(err)
			}
		}
	}
	feed()
	parked, resume := make(chan struct{}), make(chan struct{})
	var once sync.Once
	hook := func(point string, c *column.Collection, chunk uint32) {
		if c == P && point == "commit.betweenColumns" && chunk == 0 {
			once.Do(func() {
				close(parked)
				select {
				case <-resume:
				case <-time.After(20 * time.Second):
				}
			})
		}
	}
	column.VerifHook.Store(&hook)
	defer column.VerifHook.Store(nil)
	doneA := make(chan error, 1)
	go func() {
		doneA <- P.Query(func(txn *column.Txn) error {
			if err := txn.DeleteKey("K"); err != nil {
				return err
			}
			return txn.QueryKey("L", func(r column.Row) error { r.SetInt64("v", 3); return nil })
		})
	}()
	select {
	case <-parked:
	case <-time.After(20 * time.Second):
		w.Inconclusive("probe:key-delete-rekey", "writer A never reached commit.betweenColumns on block 0")
		close(resume)
		<-doneA
		return
	}
	var errB error
	P.Query(func(txn *column.Txn) error {
		return txn.QueryAt(rowJ, func(r column.Row) error { errB = txn.Key().Set("K"); return nil })
	})
	close(resume)
	if err := <-doneA; err != nil {
		panic(err)
	}
	column.VerifHook.Store(nil)
	feed()
	sv := schemaView{Cols: []ColSpec{{"k", KKey}, {"v", KInt64}}, KeyCol: "k", Keys: []string{"K", "L", "J"}}
	stP, stR := dumpState(P, sv), dumpState(R, sv)
	w.Stat("forced_cross_block_key_schedules", 1)
	if errB != nil {
		return // B found the key still present: the schedule did not produce the situation
	}
	if d := cmpStates(stP, stR, "primary", "replica", sv); d != "" {
		w.Violate(idx, "probe:key-delete-rekey", "A: txn{DeleteKey(\"K\") (row 0, block 0); QueryKey(\"L\") v=3}, parked after its row-marker pass; B: txn{at(block-1 row) SetKey(\"K\")} commits and reaches the stream first; A resumes. Stream replayed in emission order: "+d,
			"", map[string]any{"phase": 1, "idx": idx})
	}
}

// probeRevisit (not a known finding: expected to be silent): one transaction writes a string
// column in block 0, then in block 1, then in block 0 again. The first write is a length-changing
// merge with a large result - the rewritten value is appended to the transaction buffer, which
// has to grow (re-allocate) in the middle of the commit's pass over it; the last write is a merge
// whose result has the length of its delta (rewritten in place). Index, sorted index and trigger
// read the rewritten buffer in the second pass and must see all three final values.
func probeRevisit(w *W, idx int, prop string) {
	for _, big := range []int{9000, 20000, 40000} {
		wd := newWorld(64, false, false)
		wd.createColumn(ColSpec{"sc", KStringCat})
		wd.createIndex(IndexSpec{Name: "long", Col: "sc", P: Pred{Op: "len>", I: 2}})
		wd.createSortIndex(SortSpec{Name: "by_sc", Col: "sc"})
		wd.createTrigger(TrigSpec{Name: "tg", Col: "sc"})
		h := &history{w: w, idx: idx, wd: wd, stats: map[string]int64{}, lastID: map[uint32]uint64{}, caseID: "probe:revisit", cfg: e1Cfg{Oracles: oracleSet()}}
		var ops []Op
		for i := 0; i < 9; i++ {
			var ws []Write
			if i == 0 {
				ws = []Write{{Col: "sc", V: Val{S: "x"}}}
			} else if i != 7 {
				ws = []Write{{Col: "sc", V: Val{S: fmt.Sprintf("r%d", i)}}}
			}
			ops = append(ops, Op{T: "ins", W: ws})
		}
		t1 := TxnSpec{Ops: ops}
		wd.execTxn(wd.P, &t1, false, nil)
		wd.M.Apply(t1.Ops)
		const row1 = 16384 + 10
		mk := func(name string) *commit.Buffer { b := commit.NewBuffer(64); b.Reset(name); return b }
		rb, sb := mk("row"), mk("sc")
		rb.PutOperation(commit.Insert, row1)
		sb.PutString(commit.Put, row1, "b1")
		if err := wd.P.Replay(commit.Commit{ID: 1, Chunk: 1, Updates: []*commit.Buffer{rb, sb}}); err != nil {
			panic(err)
		}
		wd.M.Live[row1] = true
		wd.M.Cells["sc"][row1] = Val{S: "b1"}
		wd.cutTriggers()
		g := newGen(int64(big), "edge")
		t2 := TxnSpec{Ops: []Op{
			{T: "at", Off: t1.Ops[0].GotOff, W: []Write{{Col: "sc", Merge: true, V: Val{S: g.randBytes(big)}}}},
			{T: "at", Off: row1, W: []Write{{Col: "sc", V: Val{S: "yy"}}}},
			{T: "at", Off: t1.Ops[7].GotOff, W: []Write{{Col: "sc", Merge: true, V: Val{S: "abc"}}}},
		}}
		wd.execTxn(wd.P, &t2, false, nil)
		want := wd.M.Apply(t2.Ops)
		got := wd.cutTriggers()
		sv := wd.M.view(nil)
		st := dumpState(wd.P, sv)
		desc := fmt.Sprintf("txn{at(block-0 row holding \"x\") sc+=<%d bytes>; at(block-1 row) sc=\"yy\"; at(block-0 row without a value) sc+=\"abc\"}: ", big)
		d := cmpValues(st, wd.M)
		if d == "" {
			switch prop {
			case "C03":
				d = cmpIndexes(st, sv)
			case "C16":
				d = cmpSorted(st, sv)
			case "C19":
				d = cmpTriggers(wd.M, got, want, false)
			}
		}
		h.wd.Close()
		if d != "" {
			w.Violate(idx, "probe:revisit", desc+d, "", map[string]any{"phase": 1, "idx": idx})
			return
		}
	}
}
