package main

// e5_trunc.go — E5 crash-point enumerator (C13): every prefix (thorough) or all frame/commit
// boundaries +-2 plus a seeded sample (quick) of real snapshot and commit-log byte streams is
// fed to Restore / Log.Range; the outcome must be an error or a state at a commit boundary.

import (
	"bytes"
	"fmt"
	"math/rand"
	"sort"
	"time"

	"github.com/kelindar/column"
	"github.com/kelindar/column/commit"
)

// s2 / snappy framing: 1 byte type, 3 bytes little-endian length, payload
func frameBoundaries(b []byte) []int {
	var out []int
	pos := 0
	for pos+4 <= len(b) {
		out = append(out, pos)
		n := int(b[pos+1]) | int(b[pos+2])<<8 | int(b[pos+3])<<16
		pos += 4 + n
	}
	out = append(out, len(b))
	return out
}

type snapStream struct {
	blockModels map[uint32]*Model // model right before block b was read: what the state part must hold for block b
	data        []byte
	stateEnd    int
	wd          *World
	h           *history
	final       *State
	sv          schemaView
	tailIDs     int
	// the commits recorded while the snapshot ran, in commit order: the transaction behind each, its
	// block, and whether that block had already been read when it committed (else the block state holds it)
	tail  []tailEntry
	dense bool // a 16 384-row source: dumps are expensive, fewer offsets
}

type tailEntry struct {
	spec      *TxnSpec
	block     uint32
	afterRead bool
}

// buildSnapshotStream populates a collection with a seeded history and takes a snapshot while
// transactions commit at the snapshot protocol's hook points (same goroutine, no lock held),
// which produces a commit-log tail deterministically.
func buildSnapshotStream(w *W, idx int, seed int64) *snapStream {
	rng := rand.New(rand.NewSource(seed))
	cfg := e1Cfg{Prop: "C13", Kinds: allKinds, KeyedPct: 0, LayoutPct: 70, Steps: 15 + rng.Intn(25), Pool: "edge", Txn: baseTxn(), Oracles: oracleSet(), NIdx: 2,
		Caps: []int{64, 1000, 16385}}
	if rng.Intn(4) == 0 {
		cfg.KeyedPct = 100
		cfg.LayoutPct = 0
	}
	if rng.Intn(8) == 0 {
		cfg.Steps = 0 // empty or layout-only collection
	}
	if idx%3 == 2 {
		cfg.Steps, cfg.LayoutPct, cfg.KeyedPct = 0, 0, 0 // becomes the "filled exactly to the block boundary" source below
	}
	cfg.Txn.MaxLive = 120
	h := &history{w: w, idx: idx, cfg: cfg, rng: rng, stats: map[string]int64{}, lastID: map[uint32]uint64{}, nCols: map[Kind]int{}, caseID: fmt.Sprintf("E5:snap%d", idx)}
	h.g = newGen(seed+1, "edge")
	h.wd = newWorld(cfg.Caps[rng.Intn(len(cfg.Caps))], false, false)
	h.wd.Keys = h.g.keys
	h.setup()
	for h.steps = 0; h.steps < cfg.Steps; h.steps++ {
		h.txnQuiet()
	}
	// some unkeyed sources are filled exactly up to the end of block 0 or block 1, so that an insert
	// committed while the snapshot runs opens a block: either before the state is written (at
	// recorderOpen, after two stores to one cell) or after it (the block is then in the log tail only)
	dense, denseBlocks, growLate := false, 0, false
	if h.wd.M.KeyCol == "" && len(h.wd.M.Live) == 0 && idx%3 == 2 {
		dense, denseBlocks, growLate = true, 1+(idx/3)%2, (idx/6)%2 == 1
		for blk := 1; blk <= denseBlocks; blk++ { // one transaction per block: the collection grows block by block
			h.wd.P.Query(func(txn *column.Txn) error {
				for len(h.wd.M.Live) < blk<<14 {
					off, err := txn.Insert(func(r column.Row) error { return nil })
					if err != nil {
						panic(err)
					}
					h.wd.M.Live[off] = true
				}
				return nil
			})
		}
		h.wd.Log.take()
		h.cfg.Txn.PInsert, h.cfg.Txn.PDelete, h.cfg.Txn.MaxLive = 40, 5, 1<<20
	}
	// snapshot with transactions committing at the hook points
	ntail := 0
	budget := rng.Intn(13) // up to 12 commits in the tail
	blockModels := map[uint32]*Model{}
	read := map[uint32]bool{}
	var tailEntries []tailEntry
	hook := func(point string, c *column.Collection, chunk uint32) {
		if c != h.wd.P {
			return
		}
		defer func() {
			if point == "snapshot.beforeBlock" {
				blockModels[chunk] = h.wd.M.Clone() // block `chunk` is read next: it must hold exactly this
				read[chunk] = true
			}
		}()
		record := func(spec *TxnSpec, before int) {
			made := len(h.wd.Log.commits) - before
			budget -= made
			ntail += made
			if spec != nil {
				var bs []int
				for b := range changedBlocks(spec.Ops) {
					bs = append(bs, int(b))
				}
				sort.Ints(bs) // a transaction commits its blocks in ascending order
				for _, b := range bs {
					tailEntries = append(tailEntries, tailEntry{spec: spec, block: uint32(b), afterRead: read[uint32(b)]})
				}
			}
		}
		directed := func(ops ...Op) {
			spec := TxnSpec{Ops: ops}
			before := len(h.wd.Log.commits)
			rep := h.wd.execTxn(h.wd.P, &spec, false, nil)
			if rep.Err != nil || rep.Panic != "" {
				panic(fmt.Sprintf("E5: directed transaction failed: %v %s", rep.Err, rep.Panic))
			}
			h.wd.M.Apply(spec.Ops)
			record(&spec, before)
		}
		if dense && ((point == "snapshot.recorderOpen" && !growLate) || (point == "snapshot.beforeRecorderClose" && growLate)) {
			// two stores to one cell of block 0, then the insert that opens the next block
			directed(Op{T: "at", Off: 5, W: []Write{{Col: "i", V: Val{B: 1001}}}})
			directed(Op{T: "at", Off: 5, W: []Write{{Col: "i", V: Val{B: 1002}}}})
			directed(Op{T: "ins", W: []Write{{Col: "i", V: Val{B: 77}}}})
			if growLate {
				directed(Op{T: "at", Off: 9, W: []Write{{Col: "i", V: Val{B: 1003}}}})
			}
		}
		if budget <= 0 || (dense && !growLate && !read[0]) {
			return // (early growth: nothing else commits to block 0 before it is read)
		}
		switch point {
		case "snapshot.recorderOpen", "snapshot.beforeBlock", "snapshot.beforeRecorderClose":
			n := 1 + rng.Intn(3)
			for i := 0; i < n && budget > 0; i++ {
				before := len(h.wd.Log.commits)
				record(h.txnQuietSpec(), before)
			}
		}
	}
	column.VerifHook.Store(&hook)
	var buf bytes.Buffer
	stateEnd := -1
	mark := func(point string, c *column.Collection, chunk uint32) {
		hook(point, c, chunk)
		if c == h.wd.P && point == "snapshot.beforeCopy" {
			stateEnd = buf.Len()
		}
	}
	column.VerifHook.Store(&mark)
	err := h.wd.P.Snapshot(&buf)
	column.VerifHook.Store(nil)
	if err != nil {
		panic("E5: snapshot of the source collection failed: " + err.Error())
	}
	if stateEnd < 0 {
		panic("E5: hook snapshot.beforeCopy never reached")
	}
	if dense {
		// focused dumps (DESIGN.md 3.4): liveness of every row, values of the rows the tail touched and of some others
		focus := map[uint32]bool{0: true, 1: true, 5: true, 9: true, 16383: true, 16384: true, 32767: true, 32768: true}
		for _, e := range tailEntries {
			for _, o := range e.spec.Ops {
				if o.HasOff {
					focus[o.GotOff] = true
				}
			}
		}
		h.wd.M.Focus = focus
		for _, mb := range blockModels {
			mb.Focus = focus
		}
	}
	sv := h.wd.M.view(h.wd.Keys)
	return &snapStream{data: buf.Bytes(), stateEnd: stateEnd, wd: h.wd, h: h, final: dumpState(h.wd.P, sv), sv: sv, tailIDs: ntail, blockModels: blockModels, tail: tailEntries, dense: dense}
}

// buildBigStream: a snapshot whose state part spans several s2 frames (> 1 MiB of incompressible
// strings over three blocks) - a truncation can then fall between two frames INSIDE the state part.
func buildBigStream(w *W, idx int, seed int64) *snapStream {
	rng := rand.New(rand.NewSource(seed))
	h := &history{w: w, idx: idx, rng: rng, stats: map[string]int64{}, lastID: map[uint32]uint64{}, nCols: map[Kind]int{}, caseID: fmt.Sprintf("E5:bigsnap%d", idx),
		cfg: e1Cfg{Prop: "C13", Txn: baseTxn(), Oracles: oracleSet()}}
	h.g = newGen(seed+1, "edge")
	h.wd = newWorld(1000, false, false)
	h.addColumn(KString)
	h.addColumn(KInt64)
	h.addColumn(KEnum)
	n := 40000 + rng.Intn(5000)
	h.wd.P.Query(func(txn *column.Txn) error {
		for i := 0; i < n; i++ {
			txn.Insert(func(r column.Row) error {
				r.SetString("s", h.g.randBytes(40+rng.Intn(30)))
				r.SetInt64("i64", int64(i))
				if i%3 == 0 {
					r.SetEnum("e", "red")
				}
				return nil
			})
		}
		return nil
	})
	h.wd.P.Query(func(txn *column.Txn) error { // some holes
		for i := 0; i < 300; i++ {
			txn.DeleteAt(uint32(rng.Intn(n)))
		}
		return nil
	})
	var buf bytes.Buffer
	stateEnd := -1
	ntail := 0
	mark := func(point string, c *column.Collection, chunk uint32) {
		if c != h.wd.P {
			return
		}
		if point == "snapshot.beforeBlock" && chunk == 2 { // one small commit in the tail, on an already written block
			h.wd.P.QueryAt(5, func(r column.Row) error { r.SetInt64("i64", -5); return nil })
			ntail++
		}
		if point == "snapshot.beforeCopy" {
			stateEnd = buf.Len()
		}
	}
	column.VerifHook.Store(&mark)
	err := h.wd.P.Snapshot(&buf)
	column.VerifHook.Store(nil)
	if err != nil || stateEnd < 0 {
		panic(fmt.Sprintf("E5: big snapshot failed: %v", err))
	}
	sv := h.wd.M.view(nil)
	return &snapStream{data: buf.Bytes(), stateEnd: stateEnd, wd: h.wd, h: h, final: dumpState(h.wd.P, sv), sv: sv, tailIDs: ntail}
}

// txnQuiet executes one generated transaction on the primary and the model, no oracles.
func (h *history) txnQuiet() { h.txnQuietSpec() }

// txnQuietSpec does the same and returns the executed transaction if it committed.
func (h *history) txnQuietSpec() *TxnSpec {
	spec := h.g.genTxn(h.wd.M, h.liveRows(), h.cfg.Txn)
	if len(spec.Ops) == 0 {
		return nil
	}
	rep := h.wd.execTxn(h.wd.P, &spec, false, nil)
	h.logf("  (quiet) %s => %v", spec.String(), rep.Err)
	if rep.Panic != "" {
		panic("source history panicked: " + rep.Panic)
	}
	if rep.Err == nil {
		h.wd.M.Apply(spec.Ops)
		return &spec
	}
	return nil
}

type restoreOutcome struct {
	err   error
	st    *State
	hash  uint64
	panic string
	hung  bool
}

// guarded runs fn in its own goroutine with recover and a logical watchdog.
func guarded(fn func() restoreOutcome) restoreOutcome {
	try := func(d time.Duration) (restoreOutcome, bool) {
		ch := make(chan restoreOutcome, 1)
		go func() {
			defer func() {
				if p := recover(); p != nil {
					ch <- restoreOutcome{panic: fmt.Sprintf("%v", p)}
				}
			}()
			ch <- fn()
		}()
		select {
		case o := <-ch:
			return o, true
		case <-time.After(d):
			return restoreOutcome{}, false
		}
	}
	if o, ok := try(30 * time.Second); ok {
		return o
	}
	if o, ok := try(150 * time.Second); ok { // once expired, once fine: not a hang
		return o
	}
	return restoreOutcome{hung: true}
}

func stateHash(st *State) uint64 { return hashOf(st.hash(), st.TxnCount, fmt.Sprint(st.Idx)) }

func (s *snapStream) restoreFrom(data []byte) restoreOutcome {
	return guarded(func() restoreOutcome {
		c, err := s.wd.buildLike(64, nil, false, -1) // (capacities are C07's subject; a small one keeps the loop's allocation rate down)
		if err != nil {
			panic(err)
		}
		defer c.Close()
		rerr := c.Restore(bytes.NewReader(data))
		st := dumpState(c, s.sv)
		return restoreOutcome{err: rerr, hash: stateHash(st), st: st}
	})
}

func filterBlocks(st *State, k uint32) *State {
	out := &State{Cells: map[string]map[uint32]Val{}, Idx: map[string][]uint32{}}
	for _, r := range st.Rows {
		if r>>14 < k {
			out.Rows = append(out.Rows, r)
		}
	}
	out.Count, out.TxnCount = len(out.Rows), len(out.Rows)
	for c, cells := range st.Cells {
		out.Cells[c] = map[uint32]Val{}
		for o, v := range cells {
			if o>>14 < k {
				out.Cells[c][o] = v
			}
		}
	}
	for name, rows := range st.Idx {
		var rs []uint32
		for _, r := range rows {
			if r>>14 < k {
				rs = append(rs, r)
			}
		}
		if rs == nil {
			rs = []uint32{}
		}
		out.Idx[name] = rs
	}
	return out
}

func truncOffsets(w *W, n int, bounds []int, rng *rand.Rand, every bool, sample int) []int {
	set := map[int]bool{}
	if every {
		for i := 0; i <= n; i++ {
			set[i] = true
		}
	} else {
		for _, b := range bounds {
			for d := -2; d <= 2; d++ {
				if b+d >= 0 && b+d <= n {
					set[b+d] = true
				}
			}
		}
		for i := 0; i < sample; i++ {
			set[rng.Intn(n+1)] = true
		}
		set[0], set[n] = true, true
	}
	out := make([]int, 0, len(set))
	for o := range set {
		out = append(out, o)
	}
	sort.Ints(out)
	return out
}

func truncSnapshotCase(w *W, idx int) {
	caseID := fmt.Sprintf("E5:snapshot-stream:%d", idx)
	w.Begin(idx, caseID)
	seed := w.Seed*15485863 + int64(idx)*179424673
	var s *snapStream
	big := idx%16 == 15
	if big {
		s = buildBigStream(w, idx, seed)
		w.Stat("snapshot_streams_with_multi_frame_state", 1)
	} else {
		s = buildSnapshotStream(w, idx, seed)
	}
	defer s.wd.Close()
	rng := rand.New(rand.NewSource(seed + 5))
	state, tail := s.data[:s.stateEnd], s.data[s.stateEnd:]
	// E_j: complete state part + freshly encoded log of the first j commits
	var commits [][]byte // serialised individually
	if err := commit.Open(bytes.NewReader(tail)).Range(func(c commit.Commit) error {
		var b bytes.Buffer
		if _, err := c.WriteTo(&b); err != nil {
			return err
		}
		commits = append(commits, b.Bytes())
		return nil
	}); err != nil {
		w.Violate(idx, caseID, "the complete log tail does not range: "+err.Error(), "", map[string]any{"idx": idx})
		return
	}
	allowedOK := map[uint64]int{}
	var eHashes []uint64
	for j := 0; j <= len(commits); j++ {
		var lg bytes.Buffer
		l := commit.Open(&lg)
		for _, cb := range commits[:j] {
			var c commit.Commit
			if _, err := c.ReadFrom(bytes.NewReader(cb)); err != nil {
				panic(err)
			}
			if err := l.Append(c); err != nil {
				panic(err)
			}
		}
		o := s.restoreFrom(append(append([]byte{}, state...), lg.Bytes()...))
		if o.err != nil || o.panic != "" || o.hung {
			w.Violate(idx, caseID, fmt.Sprintf("reference restore E_%d failed: err=%v panic=%s hung=%v", j, o.err, o.panic, o.hung), "", map[string]any{"idx": idx})
			return
		}
		allowedOK[o.hash] = j
		eHashes = append(eHashes, o.hash)
		// anchor E_j against the model: per block, what the model held when the block was read, plus those of
		// the first j recorded commits that were applied to the block after it had been read (a block that did
		// not exist when the state was written starts empty). The reference restore itself is thereby checked.
		if s.wd.M.KeyCol == "" && len(s.tail) == len(commits) && s.blockModels != nil {
			blocks := map[uint32]bool{}
			for b := range s.blockModels {
				blocks[b] = true
			}
			for _, e := range s.tail[:j] {
				blocks[e.block] = true
			}
			for b := range blocks {
				var cur *Model
				if mb, ok := s.blockModels[b]; ok {
					cur = modelBlock(mb, b)
				} else {
					cur = modelBlock(s.emptyModel(), b)
				}
				cur.Trig = nil
				for _, e := range s.tail[:j] {
					if e.block == b && (e.afterRead || s.blockModels[b] == nil) {
						cur.Apply(opsInBlock(*e.spec, b))
					}
				}
				if d := cmpBlock(o.st, cur, b); d != "" {
					w.Violate(idx, caseID, fmt.Sprintf("the state part + the first %d of %d recorded commits restores without error, but block %d is not what the primary held when that block was read plus the recorded commits applied to it afterwards: %s", j, len(commits), b, d), "",
						map[string]any{"idx": idx, "commits": j})
					return
				}
				w.Stat("commit_boundary_blocks_anchored_against_model", 1)
			}
		}
	}
	// anchor: E_m is the primary when the recorder closed
	if eHashes[len(eHashes)-1] != stateHash(s.final) {
		st := dumpState(s.wd.P, s.sv)
		_ = st
		w.Violate(idx, caseID, fmt.Sprintf("anchor: restoring the complete stream (%d bytes, %d logged commits) does not reproduce the primary", len(s.data), len(commits)), "", map[string]any{"idx": idx})
		return
	}
	// first k whole blocks of E_0 (what a failed state read may leave behind)
	e0 := func() *State {
		c, _ := s.wd.buildLike(64, nil, false, -1)
		defer c.Close()
		c.Restore(bytes.NewReader(state))
		return dumpState(c, s.sv)
	}()
	// anchor E_0 against the model: the state part alone must hold, for every block, exactly what the
	// model held when that block was about to be read (the transactions run at the hook points are
	// complete by then) - a state that mixes two cuts of a block is caught here, not by the E_j set
	for b, mb := range s.blockModels {
		if d := cmpBlock(e0, mb, b); d != "" {
			w.Violate(idx, caseID, fmt.Sprintf("the state part of the snapshot (cut at the state/log boundary, %d bytes) restores without error but block %d is not the primary's block at the moment it was read: %s", s.stateEnd, b, d), "",
				map[string]any{"idx": idx, "offset": s.stateEnd})
			return
		}
		w.Stat("state_blocks_anchored_against_model", 1)
	}
	allowedErr := map[uint64]bool{}
	maxBlock := uint32(0)
	for _, r := range e0.Rows {
		if r>>14+1 > maxBlock {
			maxBlock = r>>14 + 1
		}
	}
	for k := uint32(0); k <= maxBlock; k++ {
		allowedErr[stateHash(filterBlocks(e0, k))] = true
	}
	for h := range allowedOK {
		allowedErr[h] = true
	}
	bounds := frameBoundaries(s.data)
	bounds = append(bounds, s.stateEnd)
	every := w.Thorough() && len(s.data) <= 120000
	sample := 400
	if big {
		sample = 60 // a restore of 40 000 rows costs tens of milliseconds
	}
	if s.dense {
		sample, every = 60, false
		w.Stat("snapshot_streams_growing_into_a_new_block_while_written", 1)
	}
	offs := truncOffsets(w, len(s.data), bounds, rng, every, sample)
	okCount, errCount := 0, 0
	for _, off := range offs {
		o := s.restoreFrom(s.data[:off])
		w.Stat("truncated_restores", 1)
		var bad string
		switch {
		case o.hung:
			bad = "Restore hangs"
		case o.panic != "":
			bad = "Restore panics: " + o.panic
		case o.err == nil:
			okCount++
			if _, ok := allowedOK[o.hash]; !ok {
				bad = "Restore returned nil but the state equals no commit boundary E_0..E_m"
			}
		default:
			errCount++
			if !allowedErr[o.hash] {
				bad = fmt.Sprintf("Restore returned %q and left a state that is neither whole blocks of the state part nor a commit boundary", o.err)
			}
		}
		if bad != "" {
			w.Violate(idx, caseID, fmt.Sprintf("prefix of %d/%d bytes (state part %d bytes, %d logged commits): %s", off, len(s.data), s.stateEnd, len(commits), bad), "",
				map[string]any{"idx": idx, "offset": off, "stream_bytes": len(s.data)})
			return
		}
	}
	w.Eval(hashOf("snap", idx, len(s.data), len(commits)), len(s.data) > 50)
	w.Stat("snapshot_streams", 1)
	w.Stat("prefixes_restored_without_error", int64(okCount))
	w.Stat("prefixes_restored_with_error", int64(errCount))
	w.Stat("logged_commits_in_tails", int64(len(commits)))
	w.StatMax("max_stream_bytes", int64(len(s.data)))
	w.StatMax("max_blocks_in_stream", int64(maxBlock))
	if every {
		w.Stat("streams_every_byte", 1)
	} else {
		w.Stat("nonexhaustive", 1)
	}
	if idx < 2 {
		w.Sample(map[string]any{"stream": "snapshot", "bytes": len(s.data), "state_part": s.stateEnd, "logged_commits": len(commits), "offsets_tried": len(offs), "every_byte": every,
			"restored_ok_at": okCount, "restored_err_at": errCount})
	}
}

// truncLogCase: a standalone commit log; Range over every prefix must deliver a prefix of the
// original commits, each whole.
func truncLogCase(w *W, idx, k int) {
	caseID := fmt.Sprintf("E5:log-stream:%d", k)
	w.Begin(idx, caseID)
	seed := w.Seed*32452843 + int64(k)*49979687
	rng := rand.New(rand.NewSource(seed))
	// real commits from a real history
	cfg := e1Cfg{Prop: "C13", Kinds: allKinds, LayoutPct: 0, Steps: 0, Pool: "edge", Txn: baseTxn(), Oracles: oracleSet(), Caps: []int{64, 16385}}
	h := &history{w: w, idx: idx, cfg: cfg, rng: rng, stats: map[string]int64{}, lastID: map[uint32]uint64{}, nCols: map[Kind]int{}, caseID: caseID}
	h.g = newGen(seed+1, "edge")
	h.wd = newWorld(cfg.Caps[rng.Intn(2)], false, false)
	defer h.wd.Close()
	h.setup()
	want := 1 + rng.Intn(20)
	big := k%5 == 4
	for tries := 0; len(h.wd.Log.commits) < want && tries < 400; tries++ {
		h.txnQuiet()
	}
	if big {
		// one commit larger than an s2 block (1 MiB): the only way a frame boundary falls inside a commit
		h.wd.P.Query(func(txn *column.Txn) error {
			for i := 0; i < 24; i++ {
				txn.Insert(func(r column.Row) error {
					r.SetString("s", h.g.randBytes(60000))
					return nil
				})
			}
			return nil
		})
	}
	if k%5 == 2 {
		// a bulk commit whose FIRST column buffer alone exceeds two s2 blocks and is followed by another
		// column: an inner frame boundary can then coincide with a field boundary of the commit
		h.wd.P.Query(func(txn *column.Txn) error {
			for i := 0; i < 16384; i++ {
				txn.Insert(func(r column.Row) error {
					r.SetString("s", h.g.randBytes(130+i%23))
					r.SetInt64("i64", int64(i))
					r.SetEnum("e", "red")
					return nil
				})
			}
			return nil
		})
		want += 4
		w.Stat("logs_with_multi_frame_multi_column_commit", 1)
	}
	commits := h.wd.Log.take()
	if len(commits) > want+1 {
		commits = commits[:want+1]
	}
	var file bytes.Buffer
	lg := commit.Open(&file)
	var serial [][]byte
	for _, c := range commits {
		var b bytes.Buffer
		c.WriteTo(&b)
		serial = append(serial, b.Bytes())
		if err := lg.Append(c); err != nil {
			panic(err)
		}
	}
	data := file.Bytes()
	every := w.Thorough() && len(data) <= 60000
	offs := truncOffsets(w, len(data), frameBoundaries(data), rng, every, 400)
	delivered := map[int]int{}
	for _, off := range offs {
		var got [][]byte
		reused := false
		o := guarded(func() restoreOutcome {
			got = got[:0]
			reused = false
			lgx := commit.Open(bytes.NewReader(data[:off]))
			err := lgx.Range(func(c commit.Commit) error {
				var b bytes.Buffer
				c.WriteTo(&b)
				got = append(got, b.Bytes())
				return nil
			})
			// the Log object is still usable afterwards, whatever Range returned (here: ranging it once more;
			// the reader is exhausted, nothing more may be delivered)
			reused = true
			extra := 0
			lgx.Range(func(commit.Commit) error { extra++; return nil })
			if extra > 0 && err == nil {
				err = fmt.Errorf("a second Range over the exhausted reader delivered %d more commits", extra)
			}
			return restoreOutcome{err: err}
		})
		w.Stat("truncated_log_ranges", 1)
		bad := ""
		switch {
		case o.hung && reused:
			bad = fmt.Sprintf("Range returned after %d commits, but a second Range on the same Log hangs (a lock was left held)", len(got))
		case o.hung:
			bad = "Range hangs"
		case o.panic != "":
			bad = "Range panics: " + o.panic
		case len(got) > len(serial):
			bad = fmt.Sprintf("Range delivered %d commits, the log holds %d", len(got), len(serial))
		default:
			for i := range got {
				if !bytes.Equal(got[i], serial[i]) {
					bad = fmt.Sprintf("delivered commit %d differs from the commit that was appended (partial or corrupted commit handed to the callback)", i)
					break
				}
			}
		}
		if bad == "" && off == len(data) && (len(got) != len(serial) || o.err != nil) {
			bad = fmt.Sprintf("the complete log delivers %d of %d commits (err=%v)", len(got), len(serial), o.err)
		}
		if bad != "" {
			w.Violate(idx, caseID, fmt.Sprintf("prefix of %d/%d bytes of a %d-commit log: %s", off, len(data), len(serial), bad), "", map[string]any{"idx": idx, "offset": off})
			return
		}
		delivered[len(got)]++
	}
	w.Eval(hashOf("log", k, len(data), len(serial)), len(serial) > 0)
	w.Stat("log_streams", 1)
	w.Stat("log_commits", int64(len(serial)))
	w.StatMax("max_log_bytes", int64(len(data)))
	w.Stat("distinct_delivered_prefix_lengths", int64(len(delivered)))
	if every {
		w.Stat("streams_every_byte", 1)
	} else {
		w.Stat("nonexhaustive", 1)
	}
	if k < 1 {
		w.Sample(map[string]any{"stream": "log", "bytes": len(data), "commits": len(serial), "offsets_tried": len(offs), "every_byte": every, "delivered_prefix_lengths_seen": len(delivered)})
	}
}

func truncPlan(tier string) []Plan {
	if tier == "thorough" {
		return []Plan{{Cases: 256 + 128, Workers: 16, MaxProcs: 1, Timeout: 120 * time.Minute}}
	}
	return []Plan{{Cases: 32 + 32, Workers: 16, MaxProcs: 1, Timeout: 20 * time.Minute}}
}

func truncRun(w *W, phase, idx int) {
	nsnap := 32
	if w.Thorough() {
		nsnap = 256
	}
	if idx < nsnap {
		defer func() {
			if p := recover(); p != nil {
				w.Violate(idx, fmt.Sprintf("E5:snapshot-stream:%d", idx), fmt.Sprintf("panic outside the guarded restore: %v", p), "", map[string]any{"idx": idx})
			}
		}()
		truncSnapshotCase(w, idx)
		return
	}
	truncLogCase(w, idx, idx-nsnap)
}

func init() {
	register(&Property{
		ID: "C13", Level: "fault_enumeration",
		Rule: "one case = one real byte stream (a snapshot of a seeded multi-kind collection of 0-3 blocks, with 0-12 commits logged while the snapshot was running, or a standalone commit log of 1-21 commits incl. one > 1 MiB); crash points = truncation offsets: every byte (thorough, streams <= 120 KB) or every s2 frame boundary +-2, the state/log boundary +-2 and 400 seeded offsets (quick, and large streams); each prefix is restored/ranged by the real code under recover() and a watchdog and the resulting state must be E_j (complete state + first j logged commits, built from well-formed input and anchored against the primary) or, with an error, whole blocks of the state part; non-trivial = stream longer than 50 bytes / log with at least one commit",
		Assume: []string{"the reference states E_j are produced by the same Restore on well-formed input; E_m is anchored against the primary's dump",
			"s2 frames are located by the documented snappy framing (type byte + 24-bit length)"},
		Plan: truncPlan, Run: truncRun,
		MinEvents: map[string]int64{"truncated_restores": 1000, "truncated_log_ranges": 1000, "prefixes_restored_without_error": 16},
	})
}

// emptyModel: the schema of the source without rows
func (s *snapStream) emptyModel() *Model {
	m := s.wd.M.Clone()
	m.Live = map[uint32]bool{}
	for c := range m.Cells {
		m.Cells[c] = map[uint32]Val{}
	}
	return m
}
