package main

// Driver: the parent process of every check. It never executes library code that
// may panic; all executions happen in child processes ("workers") of the same binary
// (or of its -race twin). The parent merges the workers' results, writes the evidence
// file, prints VIOLATION / KNOWN-FINDING / NO-EVIDENCE lines and decides the exit code.

import (
	"bufio"
	"encoding/json"
	"fmt"
	"hash/fnv"
	"os"
	"os/exec"
	"path/filepath"
	"runtime"
	"runtime/debug"
	"runtime/pprof"
	"sort"
	"strconv"
	"strings"
	"sync"
	"syscall"
	"time"
)

// ---------------------------------------------------------------------------------------------
// Results exchanged between worker and parent

// Violation is one refuted case.
type Violation struct {
	Case   string          `json:"case"`             // case identifier (engine:idx)
	Idx    int             `json:"idx"`              // case index in the plan
	Detail string          `json:"detail"`           // first difference, human readable
	KF     string          `json:"kf,omitempty"`     // known-finding key if the signature matched one
	Replay json.RawMessage `json:"replay,omitempty"` // engine specific replay data
}

// WorkerResult is what one worker process reports.
type WorkerResult struct {
	Evaluations  int64            `json:"evaluations"`
	Hashes       []uint64         `json:"hashes"` // hashes of distinct non-trivial cases
	Violations   []Violation      `json:"violations"`
	Inconclusive []string         `json:"inconclusive"`
	Stats        map[string]int64 `json:"stats"`
	Samples      []any            `json:"samples"`
	Notes        []string         `json:"notes"`
	Done         bool             `json:"done"`
	LastIdx      int              `json:"last_idx"`
}

// W is the worker-side context handed to engines.
type W struct {
	Prop    string
	Tier    string
	Seed    int64
	Slice   int
	NSlices int
	Start   int
	Extra   string
	Res     WorkerResult
	prog    *os.File
	out     string
	hashes  map[uint64]struct{}
	mu      sync.Mutex
	maxSamp int
}

func (w *W) Thorough() bool { return w.Tier == "thorough" }

// Begin records that a case is about to run (so that a crash can be attributed to it).
func (w *W) Begin(idx int, caseID string) {
	if w.prog != nil {
		fmt.Fprintf(w.prog, "%d %s\n", idx, caseID)
	}
	w.mu.Lock()
	w.Res.LastIdx = idx
	w.mu.Unlock()
}

// Eval counts one executed case; hash identifies its shape, nontrivial says whether it
// satisfies the property's non-triviality rule.
func (w *W) Eval(hash uint64, nontrivial bool) {
	w.mu.Lock()
	w.Res.Evaluations++
	if nontrivial {
		w.hashes[hash] = struct{}{}
	}
	w.mu.Unlock()
}

func (w *W) Violate(idx int, caseID, detail, kf string, replay any) {
	raw, _ := json.Marshal(replay)
	w.mu.Lock()
	// violations attributed to a known-finding signature are capped separately so that they can
	// never crowd out an unattributed one
	w.Res.Stats["raised:"+kf]++
	if (kf == "" && w.Res.Stats["raised:"] <= 50) || (kf != "" && w.Res.Stats["raised:"+kf] <= 3) {
		w.Res.Violations = append(w.Res.Violations, Violation{Case: caseID, Idx: idx, Detail: detail, KF: kf, Replay: raw})
	}
	w.Res.Stats["violations_total"]++
	w.mu.Unlock()
	w.flush(false) // a later crash must not lose this verdict
}

func (w *W) Inconclusive(caseID, why string) {
	w.mu.Lock()
	if len(w.Res.Inconclusive) < 50 {
		w.Res.Inconclusive = append(w.Res.Inconclusive, caseID+": "+why)
	}
	w.Res.Stats["inconclusive"]++
	w.mu.Unlock()
}

func (w *W) Stat(name string, n int64) {
	w.mu.Lock()
	w.Res.Stats[name] += n
	w.mu.Unlock()
}

func (w *W) StatMax(name string, n int64) {
	w.mu.Lock()
	if w.Res.Stats[name] < n {
		w.Res.Stats[name] = n
	}
	w.mu.Unlock()
}

func (w *W) Sample(v any) {
	w.mu.Lock()
	if len(w.Res.Samples) < w.maxSamp {
		w.Res.Samples = append(w.Res.Samples, v)
	}
	w.mu.Unlock()
}

func (w *W) Note(s string) {
	w.mu.Lock()
	if len(w.Res.Notes) < 40 {
		w.Res.Notes = append(w.Res.Notes, s)
	}
	w.mu.Unlock()
}

func (w *W) flush(done bool) {
	w.mu.Lock()
	defer w.mu.Unlock()
	w.Res.Done = done
	w.Res.Hashes = w.Res.Hashes[:0]
	for h := range w.hashes {
		w.Res.Hashes = append(w.Res.Hashes, h)
	}
	data, err := json.Marshal(&w.Res)
	if err != nil {
		fmt.Fprintln(os.Stderr, "worker: marshal:", err)
		return
	}
	tmp := w.out + ".tmp"
	if err := os.WriteFile(tmp, data, 0o644); err == nil {
		os.Rename(tmp, w.out)
	}
}

func hashOf(parts ...any) uint64 {
	h := fnv.New64a()
	for _, p := range parts {
		fmt.Fprintf(h, "%v|", p)
	}
	return h.Sum64()
}

// ---------------------------------------------------------------------------------------------
// Property registry

// Plan describes how a property's check is distributed over worker processes.
type Plan struct {
	Cases      int           // number of cases (indexes 0..Cases-1), distributed idx%Workers
	Workers    int           // number of worker processes
	Race       bool          // use the -race binary
	MaxProcs   int           // GOMAXPROCS of each worker (0 = default)
	Timeout    time.Duration // wall-clock watchdog per worker (expiry = inconclusive unless HangIsViolation)
	Env        []string
	HangIsViol bool // a worker that does not finish is classified from its goroutine dump
	Extra      string
	// Recycle > 0: a worker process hands over to a fresh one after this many cases (exit status 78; the
	// parent continues behind the last case). For phases in which every case leaves memory behind that the
	// process cannot get back (asynchronous s2 writers of Snapshot: two goroutines and ~2 MB each).
	Recycle int
}

type Property struct {
	ID        string
	Level     string // exploration | fault_enumeration
	Rule      string
	Assume    []string
	Plan      func(tier string) []Plan // one or more phases
	Run       func(w *W, phase int, idx int)
	Init      func(w *W, phase int)           // optional per-worker init
	Fini      func(w *W, phase int)           // optional per-worker end (quiescent checks)
	Post      func(d *Driver)                 // optional parent-side post-processing (e.g. race logs)
	MinEvents map[string]int64                // stats that must reach a minimum or the run is NO-EVIDENCE
	Replay    func(w *W, raw json.RawMessage) // re-execute one case from a replay file
}

var registry = map[string]*Property{}

func register(p *Property) { registry[p.ID] = p }

// ---------------------------------------------------------------------------------------------
// Parent

type Driver struct {
	Prop     *Property
	Tier     string
	Seed     int64
	Root     string // /verif
	Out      string // where evidence and replays are written
	RunDir   string
	Merged   WorkerResult
	hashes   map[uint64]struct{}
	crashes  []Violation
	started  time.Time
	RaceLogs []string
}

func verifRoot() string {
	if r := os.Getenv("VERIF_ROOT"); r != "" {
		return r
	}
	return "/verif"
}

// outRoot is where evidence, replays and run directories go: the verif root for the registered
// checks, a scratch directory for self-test runs against a scratch copy of the library.
func outRoot() string {
	if r := os.Getenv("VERIF_OUT"); r != "" {
		return r
	}
	return verifRoot()
}

func binDir() string {
	if r := os.Getenv("VERIF_BIN"); r != "" {
		return r
	}
	return filepath.Join(verifRoot(), ".build")
}

func seedFromEnv() int64 {
	if s := os.Getenv("VERIF_SEED"); s != "" {
		if v, err := strconv.ParseInt(s, 10, 64); err == nil {
			return v
		}
	}
	return 1
}

func drive(propID, tier string) int {
	p, ok := registry[propID]
	if !ok {
		fmt.Fprintf(os.Stderr, "unknown property %s\n", propID)
		return 3
	}
	d := &Driver{Prop: p, Tier: tier, Seed: seedFromEnv(), Root: verifRoot(), hashes: map[uint64]struct{}{}, started: time.Now()}
	d.Merged.Stats = map[string]int64{}
	d.Out = outRoot()
	d.RunDir = filepath.Join(binDir(), "run", propID+"-"+tier)
	os.RemoveAll(d.RunDir)
	os.MkdirAll(d.RunDir, 0o755)
	os.MkdirAll(filepath.Join(d.Out, "evidence"), 0o755)

	plans := p.Plan(tier)
	for phase, pl := range plans {
		d.runPhase(phase, pl)
	}
	if p.Post != nil {
		p.Post(d)
	}
	return d.finish()
}

type job struct {
	phase, slice, start int
	restarts            int
}

func (d *Driver) runPhase(phase int, pl Plan) {
	if pl.Workers < 1 {
		pl.Workers = 1
	}
	if pl.Timeout == 0 {
		pl.Timeout = 30 * time.Minute
	}
	var wg sync.WaitGroup
	var mu sync.Mutex
	for s := 0; s < pl.Workers; s++ {
		wg.Add(1)
		go func(slice int) {
			defer wg.Done()
			start := 0
			for restart := 0; restart < 25; restart++ {
				res, crashed, next := d.runWorker(phase, pl, slice, start, restart)
				mu.Lock()
				d.merge(res)
				mu.Unlock()
				if !crashed {
					return
				}
				start = next
				if start < 0 {
					return
				}
			}
		}(s)
	}
	wg.Wait()
}

func (d *Driver) merge(r *WorkerResult) {
	if r == nil {
		return
	}
	d.Merged.Evaluations += r.Evaluations
	for _, h := range r.Hashes {
		d.hashes[h] = struct{}{}
	}
	d.Merged.Violations = append(d.Merged.Violations, r.Violations...)
	d.Merged.Inconclusive = append(d.Merged.Inconclusive, r.Inconclusive...)
	for k, v := range r.Stats {
		if strings.HasPrefix(k, "max_") {
			if d.Merged.Stats[k] < v {
				d.Merged.Stats[k] = v
			}
		} else {
			d.Merged.Stats[k] += v
		}
	}
	for _, s := range r.Samples {
		if len(d.Merged.Samples) < 6 {
			d.Merged.Samples = append(d.Merged.Samples, s)
		}
	}
	d.Merged.Notes = append(d.Merged.Notes, r.Notes...)
}

func binPath(root string, race bool) string {
	if race {
		return filepath.Join(binDir(), "vcheck-race")
	}
	return filepath.Join(binDir(), "vcheck")
}

// runWorker runs one worker process; returns its (possibly partial) result, whether it
// crashed, and the index from which a restarted worker should continue (-1: do not restart).
func (d *Driver) runWorker(phase int, pl Plan, slice, start, restart int) (*WorkerResult, bool, int) {
	base := filepath.Join(d.RunDir, fmt.Sprintf("p%d-s%d-r%d", phase, slice, restart))
	out := base + ".json"
	tmpdir := base + ".tmp.d"
	os.MkdirAll(tmpdir, 0o755)
	defer os.RemoveAll(tmpdir)
	args := []string{"worker", d.Prop.ID, d.Tier, strconv.FormatInt(d.Seed, 10), strconv.Itoa(phase),
		strconv.Itoa(slice), strconv.Itoa(pl.Workers), strconv.Itoa(start), out, pl.Extra}
	cmd := exec.Command(binPath(d.Root, pl.Race), args...)
	logf, _ := os.Create(base + ".log")
	defer logf.Close()
	cmd.Stdout = logf
	cmd.Stderr = logf
	cmd.Env = append(os.Environ(), "TMPDIR="+tmpdir, "VERIF_ROOT="+d.Root)
	if pl.MaxProcs > 0 {
		cmd.Env = append(cmd.Env, "GOMAXPROCS="+strconv.Itoa(pl.MaxProcs))
	}
	if pl.Race {
		racelog := base + ".race"
		cmd.Env = append(cmd.Env, "GORACE=halt_on_error=0 log_path="+racelog)
		d.RaceLogs = append(d.RaceLogs, racelog)
	}
	cmd.Env = append(cmd.Env, pl.Env...)
	if err := cmd.Start(); err != nil {
		d.crashes = append(d.crashes, Violation{Case: "spawn", Detail: "cannot start worker: " + err.Error()})
		return nil, false, -1
	}
	done := make(chan error, 1)
	go func() { done <- cmd.Wait() }()
	var err error
	timedOut := false
	select {
	case err = <-done:
	case <-time.After(pl.Timeout):
		timedOut = true
		cmd.Process.Signal(syscall.SIGQUIT) // goroutine dump goes to the log file
		select {
		case err = <-done:
		case <-time.After(20 * time.Second):
			cmd.Process.Kill()
			err = <-done
		}
	}
	res := readResult(out)
	if res != nil && res.Done && !timedOut && (err == nil || pl.Race) {
		// a -race binary exits with status 66 when it reported races; the reports are read from
		// the race logs, the worker itself completed
		return res, false, -1
	}
	// The worker did not finish: crash (panic, fatal error, checkptr, os.Exit) or watchdog.
	lastIdx, lastCase := readProgress(base + ".progress")
	tail := tailOf(base+".log", 60)
	caseID := fmt.Sprintf("%s (worker phase=%d slice=%d)", lastCase, phase, slice)
	if timedOut {
		if pl.HangIsViol && hangIsDeadlock(tail, base+".log") {
			d.crashes = append(d.crashes, Violation{Case: caseID, Idx: lastIdx, Detail: "HANG: worker never completed; every goroutine blocked\n" + tail,
				Replay: mustJSON(map[string]any{"phase": phase, "idx": lastIdx, "kind": "hang"})})
		} else {
			d.Merged.Inconclusive = append(d.Merged.Inconclusive, fmt.Sprintf("%s: watchdog (%s) expired", caseID, pl.Timeout))
			d.Merged.Stats["inconclusive"]++
		}
		if res == nil {
			res = &WorkerResult{}
		}
		return res, false, -1
	}
	if ee, ok := err.(*exec.ExitError); ok && ee.ExitCode() == 78 && pl.Recycle > 0 && lastIdx >= 0 {
		// planned hand-over: results so far are in the result file, a fresh process continues behind the last case
		if res == nil {
			res = &WorkerResult{}
		}
		return res, true, lastIdx + 1
	}
	if ee, ok := err.(*exec.ExitError); ok && ee.ExitCode() == 77 {
		// the worker reported a round that never completed (verdict already in its result file) and gave up
		if res == nil {
			res = &WorkerResult{}
		}
		return res, true, lastIdx + 1
	}
	detail := fmt.Sprintf("worker died (%v) while running case %s\n%s", err, lastCase, tail)
	d.crashes = append(d.crashes, Violation{Case: caseID, Idx: lastIdx, Detail: detail, KF: crashSignature(tail),
		Replay: mustJSON(map[string]any{"phase": phase, "idx": lastIdx, "kind": "crash"})})
	if res == nil {
		res = &WorkerResult{}
	}
	// partial results flushed before the crash are kept; continue after the culprit
	if lastIdx < 0 {
		return res, true, -1
	}
	return res, true, lastIdx + 1
}

func mustJSON(v any) json.RawMessage { b, _ := json.Marshal(v); return b }

func readResult(path string) *WorkerResult {
	data, err := os.ReadFile(path)
	if err != nil {
		return nil
	}
	var r WorkerResult
	if json.Unmarshal(data, &r) != nil {
		return nil
	}
	return &r
}

func readProgress(path string) (int, string) {
	f, err := os.Open(path)
	if err != nil {
		return -1, "?"
	}
	defer f.Close()
	last := ""
	sc := bufio.NewScanner(f)
	sc.Buffer(make([]byte, 1<<20), 1<<20)
	for sc.Scan() {
		if t := sc.Text(); t != "" {
			last = t
		}
	}
	if last == "" {
		return -1, "?"
	}
	parts := strings.SplitN(last, " ", 2)
	idx, err := strconv.Atoi(parts[0])
	if err != nil {
		return -1, last
	}
	if len(parts) > 1 {
		return idx, parts[1]
	}
	return idx, last
}

func tailOf(path string, n int) string {
	data, err := os.ReadFile(path)
	if err != nil {
		return ""
	}
	lines := strings.Split(string(data), "\n")
	// prefer the beginning of a panic / fatal error
	for i, l := range lines {
		if strings.HasPrefix(l, "panic:") || strings.HasPrefix(l, "fatal error:") || strings.Contains(l, "SIGQUIT") {
			end := i + n
			if end > len(lines) {
				end = len(lines)
			}
			return strings.Join(lines[i:end], "\n")
		}
	}
	if len(lines) > n {
		lines = lines[len(lines)-n:]
	}
	return strings.Join(lines, "\n")
}

// crashSignature maps a crash to a known-finding key where the signature is exact.
func crashSignature(tail string) string { return "" }

// hangIsDeadlock classifies a goroutine dump: deadlock only if no goroutine is runnable/running
// in workload code (all are in sync/chan waits).
func hangIsDeadlock(tail, logPath string) bool {
	data, err := os.ReadFile(logPath)
	if err != nil {
		return false
	}
	text := string(data)
	i := strings.Index(text, "SIGQUIT")
	if i < 0 {
		return false
	}
	gs := strings.Split(text[i:], "\n\ngoroutine ")
	if len(gs) < 2 {
		return false
	}
	blocked, active := 0, 0
	for _, g := range gs[1:] {
		head := g
		if j := strings.Index(g, "\n"); j >= 0 {
			head = g[:j]
		}
		if !strings.Contains(g, "verifharness") && !strings.Contains(g, "kelindar/column") {
			continue // runtime / helper goroutines
		}
		switch {
		case strings.Contains(head, "[running]"), strings.Contains(head, "[runnable]"), strings.Contains(head, "[syscall"), strings.Contains(head, "[sleep"):
			active++
		default:
			blocked++
		}
	}
	return blocked > 0 && active == 0
}

// ---------------------------------------------------------------------------------------------
// Known findings

type knownFinding struct {
	Prop, Key, Text string
}

func loadKnownFindings(root string) []knownFinding {
	var out []knownFinding
	data, err := os.ReadFile(filepath.Join(root, "known_findings.txt"))
	if err != nil {
		return nil
	}
	for _, line := range strings.Split(string(data), "\n") {
		line = strings.TrimSpace(line)
		if !strings.HasPrefix(line, "finding:") {
			continue
		}
		var kf knownFinding
		rest := strings.TrimSpace(strings.TrimPrefix(line, "finding:"))
		for _, f := range strings.Fields(rest) {
			if strings.HasPrefix(f, "property=") {
				kf.Prop = strings.TrimPrefix(f, "property=")
			} else if strings.HasPrefix(f, "key=") {
				kf.Key = strings.TrimPrefix(f, "key=")
			}
		}
		kf.Text = rest
		out = append(out, kf)
	}
	return out
}

// ---------------------------------------------------------------------------------------------
// Verdict and evidence

func (d *Driver) finish() int {
	p := d.Prop
	all := append([]Violation{}, d.crashes...)
	all = append(all, d.Merged.Violations...)
	known := loadKnownFindings(d.Root)
	isKnown := func(v Violation) (knownFinding, bool) {
		if v.KF == "" {
			return knownFinding{}, false
		}
		for _, k := range known {
			if k.Prop == p.ID && k.Key == v.KF {
				return k, true
			}
		}
		return knownFinding{}, false
	}
	var real []Violation
	knownHits := map[string]int{}
	knownText := map[string]string{}
	for _, v := range all {
		if k, ok := isKnown(v); ok {
			knownHits[k.Key]++
			knownText[k.Key] = k.Text
			continue
		}
		real = append(real, v)
	}
	keys := make([]string, 0, len(knownHits))
	for k := range knownHits {
		keys = append(keys, k)
	}
	sort.Strings(keys)
	for _, k := range keys {
		fmt.Printf("KNOWN-FINDING: property=%s %s (observed %d times this run) %s\n", p.ID, k, knownHits[k], knownText[k])
	}

	// replay files for real violations
	exit := 0
	if len(real) > 0 {
		exit = 1
		os.MkdirAll(filepath.Join(d.Out, "replays"), 0o755)
		seen := map[string]bool{}
		for i, v := range real {
			if i >= 10 {
				break
			}
			path := filepath.Join(d.Out, "replays", fmt.Sprintf("%s-%s-seed%d-%d.json", p.ID, d.Tier, d.Seed, i))
			rep := map[string]any{"property": p.ID, "tier": d.Tier, "seed": d.Seed, "case": v.Case, "idx": v.Idx, "detail": v.Detail, "replay": v.Replay, "kf_signature": v.KF}
			data, _ := json.MarshalIndent(rep, "", " ")
			os.WriteFile(path, data, 0o644)
			first := v.Detail
			if j := strings.Index(first, "\n"); j >= 0 {
				first = first[:j]
			}
			if len(first) > 300 {
				first = first[:300]
			}
			fmt.Printf("VIOLATION property=%s replay=%s\n", p.ID, path)
			if !seen[first] {
				fmt.Printf("  case=%s: %s\n", v.Case, first)
				seen[first] = true
			}
		}
		if len(real) > 10 {
			fmt.Printf("  (%d more violations not written out)\n", len(real)-10)
		}
	}

	// observation thresholds
	var missing []string
	for k, min := range p.MinEvents {
		if d.Merged.Stats[k] < min {
			missing = append(missing, fmt.Sprintf("%s=%d<%d", k, d.Merged.Stats[k], min))
		}
	}
	if d.Merged.Evaluations == 0 {
		missing = append(missing, "no case was evaluated")
	}
	sort.Strings(missing)
	if exit == 0 && len(missing) > 0 {
		fmt.Printf("NO-EVIDENCE property=%s %s\n", p.ID, strings.Join(missing, " "))
		exit = 2
	}

	// evidence
	wall := time.Since(d.started).Seconds()
	cov := map[string]any{
		"evaluations":         d.Merged.Evaluations,
		"distinct_nontrivial": len(d.hashes),
		"rule":                p.Rule,
		"samples":             d.Merged.Samples,
		"exhaustive":          d.Merged.Stats["exhaustive_spaces"] > 0 && d.Merged.Stats["nonexhaustive"] == 0,
		"observed":            d.Merged.Stats,
		"inconclusive":        len(d.Merged.Inconclusive),
		"known_findings_hit":  knownHits,
	}
	if len(d.Merged.Samples) == 0 {
		cov["samples"] = []any{"(no sample recorded)"}
	}
	if len(d.Merged.Inconclusive) > 0 {
		n := len(d.Merged.Inconclusive)
		if n > 10 {
			n = 10
		}
		cov["inconclusive_cases"] = d.Merged.Inconclusive[:n]
	}
	if len(d.Merged.Notes) > 0 {
		n := len(d.Merged.Notes)
		if n > 20 {
			n = 20
		}
		cov["notes"] = d.Merged.Notes[:n]
	}
	ev := map[string]any{
		"property_id": p.ID,
		"tier":        d.Tier,
		"seed":        d.Seed,
		"level":       p.Level,
		"coverage":    cov,
		"assumptions": p.Assume,
		"wall_s":      wall,
		"violations":  len(real),
	}
	data, _ := json.MarshalIndent(ev, "", " ")
	os.WriteFile(filepath.Join(d.Out, "evidence", p.ID+".json"), data, 0o644)

	fmt.Printf("%s %s seed=%d: evaluations=%d distinct_nontrivial=%d violations=%d known=%d inconclusive=%d wall=%.1fs\n",
		p.ID, d.Tier, d.Seed, d.Merged.Evaluations, len(d.hashes), len(real), len(all)-len(real), len(d.Merged.Inconclusive), wall)
	statKeys := make([]string, 0, len(d.Merged.Stats))
	for k := range d.Merged.Stats {
		statKeys = append(statKeys, k)
	}
	sort.Strings(statKeys)
	var sb strings.Builder
	for _, k := range statKeys {
		fmt.Fprintf(&sb, " %s=%d", k, d.Merged.Stats[k])
	}
	fmt.Printf("  observed:%s\n", sb.String())
	if exit == 0 {
		os.RemoveAll(d.RunDir)
	}
	return exit
}

// caseWatchdog: a single case normally takes milliseconds to seconds. A case that is still
// running after this limit is examined: if no goroutine with library frames is runnable (all are
// blocked in sync/channel waits) the step can never complete - a violation (deadlock / leaked
// latch); otherwise the verdict is inconclusive. Either way the worker gives up (status 77).
func caseWatchdog() time.Duration {
	if v := os.Getenv("VERIF_WATCHDOG_S"); v != "" {
		if n, err := strconv.Atoi(v); err == nil {
			return time.Duration(n) * time.Second
		}
	}
	return 12 * time.Minute
}

func caseHung(w *W, idx int) {
	buf := make([]byte, 8<<20)
	buf = buf[:runtime.Stack(buf, true)]
	blocked, active, sample := classifyGoroutines(string(buf))
	_, last := readProgress(strings.TrimSuffix(w.out, ".json") + ".progress")
	if blocked > 0 && active == 0 {
		w.Violate(idx, last, fmt.Sprintf("[hang] case %s never completed (%s): every goroutine inside the library is blocked in a sync/channel wait:\n%s", last, caseWatchdog(), sample), "",
			map[string]any{"idx": idx, "kind": "hang"})
	} else {
		w.Inconclusive(last, fmt.Sprintf("case exceeded %s with %d blocked and %d active library goroutines", caseWatchdog(), blocked, active))
	}
	w.flush(false)
	os.Exit(77)
}

// ---------------------------------------------------------------------------------------------
// Worker entry

func workerMain(args []string) int {
	// worker PROP TIER SEED PHASE SLICE NSLICES START OUT EXTRA
	if len(args) < 9 {
		fmt.Fprintln(os.Stderr, "worker: bad args")
		return 3
	}
	p, ok := registry[args[0]]
	if !ok {
		return 3
	}
	// soft memory limit per worker: restore loops allocate megabytes per iteration, and on one P the
	// concurrent collector's "live heap" includes everything allocated during the cycle, so the heap goal
	// doubles cycle after cycle (16 workers of 10-30 GB were OOM-killed in a thorough dry run of C13)
	debug.SetMemoryLimit(1500 << 20)
	if f := os.Getenv("VERIF_HEAPPROF"); f != "" { // development aid: heap profile after 400 ms
		go func() {
			time.Sleep(400 * time.Millisecond)
			if fh, err := os.Create(f); err == nil {
				pprof.WriteHeapProfile(fh)
				fh.Close()
			}
		}()
	}
	seed, _ := strconv.ParseInt(args[2], 10, 64)
	phase, _ := strconv.Atoi(args[3])
	slice, _ := strconv.Atoi(args[4])
	nsl, _ := strconv.Atoi(args[5])
	start, _ := strconv.Atoi(args[6])
	w := &W{Prop: args[0], Tier: args[1], Seed: seed, Slice: slice, NSlices: nsl, Start: start, out: args[7], Extra: args[8],
		hashes: map[uint64]struct{}{}, maxSamp: 3}
	w.Res.Stats = map[string]int64{}
	w.Res.LastIdx = -1
	w.prog, _ = os.Create(strings.TrimSuffix(args[7], ".json") + ".progress")
	plans := p.Plan(w.Tier)
	if phase >= len(plans) {
		return 3
	}
	pl := plans[phase]
	if p.Init != nil {
		p.Init(w, phase)
	}
	lastFlush := time.Now()
	ran := 0
	for idx := 0; idx < pl.Cases; idx++ {
		if idx%nsl != slice || idx < start {
			continue
		}
		wd := time.AfterFunc(caseWatchdog(), func() { caseHung(w, idx) })
		p.Run(w, phase, idx)
		wd.Stop()
		ran++
		if pl.Recycle > 0 && ran >= pl.Recycle && idx+nsl < pl.Cases {
			w.flush(false)
			os.Exit(78) // hand over to a fresh process
		}
		if time.Since(lastFlush) > 2*time.Second {
			w.flush(false)
			lastFlush = time.Now()
		}
	}
	if p.Fini != nil {
		p.Fini(w, phase)
	}
	w.flush(true)
	return 0
}
