package main

// world.go — schema description, typed access to the real collection, value pools.

import (
	"encoding/binary"
	"errors"
	"fmt"
	"math"
	"strings"
	"sync"

	"github.com/kelindar/column"
	"github.com/zeebo/xxh3"
)

type Kind int

const (
	KInt Kind = iota
	KInt16
	KInt32
	KInt64
	KUint
	KUint16
	KUint32
	KUint64
	KFloat32
	KFloat64
	KBool
	KString    // ForString(), default merge (delta replaces value)
	KStringCat // ForString(WithMerge(concat))
	KEnum
	KRecord      // ForRecord, overwrite merge
	KRecordMerge // ForRecord with custom (order sensitive, length changing) merge
	KKey
	KInt64Mul  // ForInt64(WithMerge(v*3+d)) — order-sensitive numeric merge
	KStringMin // ForString(WithMerge(keep the smaller string)) — the merged result may be shorter than the delta
	kindCount
)

var kindNames = [...]string{"int", "int16", "int32", "int64", "uint", "uint16", "uint32", "uint64", "float32", "float64",
	"bool", "string", "stringcat", "enum", "record", "recordmerge", "key", "int64mul", "stringmin"}

func (k Kind) String() string { return kindNames[k] }
func (k Kind) Numeric() bool  { return k <= KFloat64 || k == KInt64Mul }
func (k Kind) Float() bool    { return k == KFloat32 || k == KFloat64 }
func (k Kind) Signed() bool   { return k <= KInt64 || k == KInt64Mul }
func (k Kind) Unsigned() bool { return k >= KUint && k <= KUint64 }
func (k Kind) Stringy() bool {
	return k == KString || k == KStringCat || k == KStringMin || k == KEnum || k == KRecord || k == KRecordMerge || k == KKey
}
func (k Kind) Textual() bool {
	return k == KString || k == KStringCat || k == KStringMin || k == KEnum || k == KKey
}
func (k Kind) PlainString() bool { return k == KString || k == KStringCat || k == KStringMin }
func (k Kind) IsRecord() bool    { return k == KRecord || k == KRecordMerge }
func (k Kind) Mergeable() bool {
	return k.Numeric() || k.PlainString() || k.IsRecord()
}

// Val is a column value: numbers in B (canonical bits), string-like kinds in S.
type Val struct {
	B uint64 `json:"b,omitempty"`
	S string `json:"s,omitempty"`
	// Arith: the (model) value is the result of floating-point arithmetic in a merge - if it is a NaN,
	// its payload is whatever the hardware propagates and only "is a NaN" is compared. A stored NaN
	// must read back bit for bit (signalling NaNs included).
	Arith bool `json:"-"`
}

func (v Val) show(k Kind) string {
	switch {
	case k == KBool:
		return "true"
	case k.Stringy():
		s := v.S
		if len(s) > 24 {
			return fmt.Sprintf("%q..(%dB)", s[:24], len(s))
		}
		return fmt.Sprintf("%q", s)
	case k == KFloat32:
		return fmt.Sprintf("%v(%#x)", math.Float32frombits(uint32(v.B)), uint32(v.B))
	case k == KFloat64:
		return fmt.Sprintf("%v(%#x)", math.Float64frombits(v.B), v.B)
	case k.Signed():
		return fmt.Sprintf("%d", int64(v.B))
	default:
		return fmt.Sprintf("%d", v.B)
	}
}

type ColSpec struct {
	Name string `json:"name"`
	Kind Kind   `json:"kind"`
}

// ---------------------------------------------------------------------------------------------
// Record type used for record columns

type Rec struct {
	A uint32
	B []byte
}

func (r *Rec) MarshalBinary() ([]byte, error) {
	out := make([]byte, 4+len(r.B))
	binary.LittleEndian.PutUint32(out, r.A)
	copy(out[4:], r.B)
	return out, nil
}

func (r *Rec) UnmarshalBinary(b []byte) error {
	if len(b) == 0 { // the zero value
		r.A, r.B = 0, nil
		return nil
	}
	if len(b) < 4 {
		return errors.New("rec: short")
	}
	r.A = binary.LittleEndian.Uint32(b)
	r.B = append([]byte(nil), b[4:]...)
	return nil
}

func recMerge(v, d *Rec) *Rec {
	v.A = v.A*3 + d.A
	v.B = append(v.B, d.B...)
	return v
}

func recFromString(s string) *Rec {
	r := &Rec{}
	r.UnmarshalBinary([]byte(s))
	return r
}

func recToString(r *Rec) string {
	b, _ := r.MarshalBinary()
	return string(b)
}

// ---------------------------------------------------------------------------------------------
// Merge semantics (written from the property statements: merge folds the delta onto the current
// value, or onto the zero value if the cell is absent)

func mergeVal(k Kind, cur Val, has bool, d Val) Val {
	if !has {
		cur = Val{}
	}
	switch k {
	case KInt, KInt64, KUint, KUint64:
		return Val{B: cur.B + d.B}
	case KInt16:
		return Val{B: uint64(int64(int16(cur.B) + int16(d.B)))}
	case KInt32:
		return Val{B: uint64(int64(int32(cur.B) + int32(d.B)))}
	case KUint16:
		return Val{B: uint64(uint16(cur.B) + uint16(d.B))}
	case KUint32:
		return Val{B: uint64(uint32(cur.B) + uint32(d.B))}
	case KFloat32:
		return Val{B: uint64(math.Float32bits(math.Float32frombits(uint32(cur.B)) + math.Float32frombits(uint32(d.B))))}
	case KFloat64:
		return Val{B: math.Float64bits(math.Float64frombits(cur.B) + math.Float64frombits(d.B))}
	case KInt64Mul:
		return Val{B: uint64(int64(cur.B)*3 + int64(d.B))}
	case KString:
		return Val{S: d.S}
	case KStringCat:
		return Val{S: cur.S + d.S}
	case KStringMin:
		return Val{S: minMerge(cur.S, d.S)}
	case KRecord:
		return Val{S: d.S}
	case KRecordMerge:
		return Val{S: recToString(recMerge(recFromString(cur.S), recFromString(d.S)))}
	}
	panic("mergeVal: kind not mergeable: " + k.String())
}

// valEqual compares two values of a kind; NaNs produced by merges compare equal as a class.
func valEqual(k Kind, a, b Val) bool {
	if k.Stringy() {
		return a.S == b.S
	}
	if a.B == b.B {
		return true
	}
	if !a.Arith && !b.Arith {
		return false
	}
	if k == KFloat64 {
		return math.IsNaN(math.Float64frombits(a.B)) && math.IsNaN(math.Float64frombits(b.B))
	}
	if k == KFloat32 {
		fa, fb := math.Float32frombits(uint32(a.B)), math.Float32frombits(uint32(b.B))
		return fa != fa && fb != fb
	}
	return false
}

// ---------------------------------------------------------------------------------------------
// Typed access to the real collection, per numeric kind

type number interface {
	~int | ~int16 | ~int32 | ~int64 | ~uint | ~uint16 | ~uint32 | ~uint64 | ~float32 | ~float64
}

type numAcc[T any] interface {
	Set(T)
	Merge(T)
	Get() (T, bool)
	Sum() T
	Avg() float64
	Min() (T, bool)
	Max() (T, bool)
}

type aggRes struct {
	Sum     uint64
	Avg     float64
	Min     uint64
	MinOK   bool
	Max     uint64
	MaxOK   bool
	AvgBits uint64
}

type numOps struct {
	rowSet   func(r column.Row, n string, b uint64)
	rowMerge func(r column.Row, n string, b uint64)
	rowGet   func(r column.Row, n string) (uint64, bool)
	txnSet   func(t *column.Txn, n string, b uint64)
	txnMerge func(t *column.Txn, n string, b uint64)
	txnGet   func(t *column.Txn, n string) (uint64, bool)
	agg      func(t *column.Txn, n string) aggRes
	toAny    func(b uint64) any
	fromAny  func(v any) (uint64, bool)
	sumBits  func(vals []uint64) (sum uint64, avg float64, min, max uint64)
	mk       func(mul bool) column.Column
}

func mkNum[T number](
	to func(T) uint64, from func(uint64) T,
	rowGet func(column.Row, string) (T, bool), rowSet func(column.Row, string, T), rowMerge func(column.Row, string, T),
	acc func(*column.Txn, string) numAcc[T], mk func(bool) column.Column,
) numOps {
	return numOps{
		rowSet:   func(r column.Row, n string, b uint64) { rowSet(r, n, from(b)) },
		rowMerge: func(r column.Row, n string, b uint64) { rowMerge(r, n, from(b)) },
		rowGet: func(r column.Row, n string) (uint64, bool) {
			v, ok := rowGet(r, n)
			return to(v), ok
		},
		txnSet:   func(t *column.Txn, n string, b uint64) { acc(t, n).Set(from(b)) },
		txnMerge: func(t *column.Txn, n string, b uint64) { acc(t, n).Merge(from(b)) },
		txnGet: func(t *column.Txn, n string) (uint64, bool) {
			v, ok := acc(t, n).Get()
			return to(v), ok
		},
		agg: func(t *column.Txn, n string) aggRes {
			a := acc(t, n)
			var r aggRes
			r.Sum = to(a.Sum())
			r.Avg = a.Avg()
			r.AvgBits = math.Float64bits(r.Avg)
			mn, ok1 := a.Min()
			mx, ok2 := a.Max()
			r.Min, r.MinOK, r.Max, r.MaxOK = to(mn), ok1, to(mx), ok2
			return r
		},
		toAny: func(b uint64) any { return from(b) },
		fromAny: func(v any) (uint64, bool) {
			t, ok := v.(T)
			return to(t), ok
		},
		sumBits: func(vals []uint64) (uint64, float64, uint64, uint64) {
			var sum, mn, mx T
			for i, b := range vals {
				v := from(b)
				sum += v
				if i == 0 || v < mn {
					mn = v
				}
				if i == 0 || v > mx {
					mx = v
				}
			}
			return to(sum), float64(sum) / float64(len(vals)), to(mn), to(mx)
		},
		mk: mk,
	}
}

func mulMerge(v, d int64) int64 { return v*3 + d }

var nums = map[Kind]numOps{
	KInt: mkNum(func(v int) uint64 { return uint64(int64(v)) }, func(b uint64) int { return int(int64(b)) },
		column.Row.Int, column.Row.SetInt, column.Row.MergeInt,
		func(t *column.Txn, n string) numAcc[int] { return t.Int(n) }, func(bool) column.Column { return column.ForInt() }),
	KInt16: mkNum(func(v int16) uint64 { return uint64(int64(v)) }, func(b uint64) int16 { return int16(b) },
		column.Row.Int16, column.Row.SetInt16, column.Row.MergeInt16,
		func(t *column.Txn, n string) numAcc[int16] { return t.Int16(n) }, func(bool) column.Column { return column.ForInt16() }),
	KInt32: mkNum(func(v int32) uint64 { return uint64(int64(v)) }, func(b uint64) int32 { return int32(b) },
		column.Row.Int32, column.Row.SetInt32, column.Row.MergeInt32,
		func(t *column.Txn, n string) numAcc[int32] { return t.Int32(n) }, func(bool) column.Column { return column.ForInt32() }),
	KInt64: mkNum(func(v int64) uint64 { return uint64(v) }, func(b uint64) int64 { return int64(b) },
		column.Row.Int64, column.Row.SetInt64, column.Row.MergeInt64,
		func(t *column.Txn, n string) numAcc[int64] { return t.Int64(n) }, func(bool) column.Column { return column.ForInt64() }),
	KInt64Mul: mkNum(func(v int64) uint64 { return uint64(v) }, func(b uint64) int64 { return int64(b) },
		column.Row.Int64, column.Row.SetInt64, column.Row.MergeInt64,
		func(t *column.Txn, n string) numAcc[int64] { return t.Int64(n) }, func(bool) column.Column { return column.ForInt64(column.WithMerge(mulMerge)) }),
	KUint: mkNum(func(v uint) uint64 { return uint64(v) }, func(b uint64) uint { return uint(b) },
		column.Row.Uint, column.Row.SetUint, column.Row.MergeUint,
		func(t *column.Txn, n string) numAcc[uint] { return t.Uint(n) }, func(bool) column.Column { return column.ForUint() }),
	KUint16: mkNum(func(v uint16) uint64 { return uint64(v) }, func(b uint64) uint16 { return uint16(b) },
		column.Row.Uint16, column.Row.SetUint16, column.Row.MergeUint16,
		func(t *column.Txn, n string) numAcc[uint16] { return t.Uint16(n) }, func(bool) column.Column { return column.ForUint16() }),
	KUint32: mkNum(func(v uint32) uint64 { return uint64(v) }, func(b uint64) uint32 { return uint32(b) },
		column.Row.Uint32, column.Row.SetUint32, column.Row.MergeUint32,
		func(t *column.Txn, n string) numAcc[uint32] { return t.Uint32(n) }, func(bool) column.Column { return column.ForUint32() }),
	KUint64: mkNum(func(v uint64) uint64 { return v }, func(b uint64) uint64 { return b },
		column.Row.Uint64, column.Row.SetUint64, column.Row.MergeUint64,
		func(t *column.Txn, n string) numAcc[uint64] { return t.Uint64(n) }, func(bool) column.Column { return column.ForUint64() }),
	KFloat32: mkNum(func(v float32) uint64 { return uint64(math.Float32bits(v)) }, func(b uint64) float32 { return math.Float32frombits(uint32(b)) },
		column.Row.Float32, column.Row.SetFloat32, column.Row.MergeFloat32,
		func(t *column.Txn, n string) numAcc[float32] { return t.Float32(n) }, func(bool) column.Column { return column.ForFloat32() }),
	KFloat64: mkNum(func(v float64) uint64 { return math.Float64bits(v) }, func(b uint64) float64 { return math.Float64frombits(b) },
		column.Row.Float64, column.Row.SetFloat64, column.Row.MergeFloat64,
		func(t *column.Txn, n string) numAcc[float64] { return t.Float64(n) }, func(bool) column.Column { return column.ForFloat64() }),
}

func concatMerge(v, d string) string { return v + d }

// minMerge keeps the smaller of the two strings (an empty current value counts as "no value yet")
func minMerge(v, d string) string {
	if len(d) > 1 && d[0] == '=' {
		d = d[1:] // "=text": the candidate is the tail of the delta, so a result can be a sub-slice of the delta
	}
	if v == "" || d < v {
		return d
	}
	return v
}

// makeColumn creates a real column of the given kind.
func makeColumn(k Kind) column.Column {
	switch k {
	case KBool:
		return column.ForBool()
	case KString:
		return column.ForString()
	case KStringCat:
		return column.ForString(column.WithMerge(concatMerge))
	case KStringMin:
		return column.ForString(column.WithMerge(minMerge))
	case KEnum:
		return column.ForEnum()
	case KRecord:
		return column.ForRecord(func() *Rec { return new(Rec) })
	case KRecordMerge:
		return column.ForRecord(func() *Rec { return new(Rec) }, column.WithMerge(recMerge))
	case KKey:
		return column.ForKey()
	}
	return nums[k].mk(false)
}

// writeCell buffers a store or a merge on the row the transaction cursor points at.
// via: 0 = Row accessor, 1 = Txn accessor, 2 = SetAny (puts only), 3 = SetMany (puts only)
func writeCell(t *column.Txn, r column.Row, c ColSpec, w Write) {
	k := c.Kind
	merge, v, via := w.Merge, w.V, w.Via
	if merge {
		switch {
		case k.Numeric():
			if via == 1 {
				nums[k].txnMerge(t, c.Name, v.B)
			} else {
				nums[k].rowMerge(r, c.Name, v.B)
			}
		case k.PlainString():
			if via == 1 {
				t.String(c.Name).Merge(v.S)
			} else {
				r.MergeString(c.Name, v.S)
			}
		case k.IsRecord():
			if via == 1 {
				t.Record(c.Name).Merge(recFromString(v.S))
			} else {
				r.MergeRecord(c.Name, recFromString(v.S))
			}
		default:
			panic("merge on " + k.String())
		}
		return
	}
	switch via {
	case 2:
		r.SetAny(c.Name, anyOf(k, v))
		return
	case 3:
		if err := r.SetMany(map[string]any{c.Name: anyOf(k, v)}); err != nil {
			panic(err)
		}
		return
	case 4: // int / uint columns accept narrower integers through the any-typed path
		r.SetAny(c.Name, narrowAny(k, v))
		return
	case 5:
		if err := r.SetMany(map[string]any{c.Name: narrowAny(k, v)}); err != nil {
			panic(err)
		}
		return
	}
	switch {
	case k.Numeric():
		if via == 1 {
			nums[k].txnSet(t, c.Name, v.B)
		} else {
			nums[k].rowSet(r, c.Name, v.B)
		}
	case k == KBool:
		if via == 1 {
			t.Bool(c.Name).Set(!w.False)
		} else {
			r.SetBool(c.Name, !w.False)
		}
	case k.PlainString():
		if via == 1 {
			t.String(c.Name).Set(v.S)
		} else {
			r.SetString(c.Name, v.S)
		}
	case k == KEnum:
		if via == 1 {
			t.Enum(c.Name).Set(v.S)
		} else {
			r.SetEnum(c.Name, v.S)
		}
	case k.IsRecord():
		if via == 1 {
			t.Record(c.Name).Set(recFromString(v.S))
		} else {
			r.SetRecord(c.Name, recFromString(v.S))
		}
	case k == KKey:
		r.SetKey(v.S)
	}
}

// narrowAny returns the value of an int / uint column as the narrowest Go integer type that
// holds it (PutAny encodes int8/int16/int32 and uint8/uint16/uint32 in 2 or 4 bytes; the int and
// uint columns read values of any size).
func narrowAny(k Kind, v Val) any {
	if k == KInt {
		x := int64(v.B)
		switch {
		case x >= -128 && x <= 127:
			return int8(x)
		case x >= -32768 && x <= 32767:
			return int16(x)
		case x >= -(1<<31) && x < 1<<31:
			return int32(x)
		}
		return int(x)
	}
	if k == KUint {
		switch {
		case v.B <= 0xff:
			return uint8(v.B)
		case v.B <= 0xffff:
			return uint16(v.B)
		case v.B <= 0xffffffff:
			return uint32(v.B)
		}
		return uint(v.B)
	}
	return anyOf(k, v)
}

func anyOf(k Kind, v Val) any {
	switch {
	case k.Numeric():
		return nums[k].toAny(v.B)
	case k == KBool:
		return true
	case k.IsRecord():
		return recFromString(v.S)
	}
	return v.S
}

// readCell reads a cell through the typed reader (Row accessor, or Txn accessor when viaTxn).
func readCell(t *column.Txn, r column.Row, c ColSpec, viaTxn bool) (Val, bool) {
	k := c.Kind
	switch {
	case k.Numeric():
		var b uint64
		var ok bool
		if viaTxn {
			b, ok = nums[k].txnGet(t, c.Name)
		} else {
			b, ok = nums[k].rowGet(r, c.Name)
		}
		return Val{B: b}, ok
	case k == KBool:
		var v bool
		if viaTxn {
			v = t.Bool(c.Name).Get()
		} else {
			v = r.Bool(c.Name)
		}
		return Val{B: 1}, v
	case k.PlainString():
		var s string
		var ok bool
		if viaTxn {
			s, ok = t.String(c.Name).Get()
		} else {
			s, ok = r.String(c.Name)
		}
		return Val{S: strings.Clone(s)}, ok
	case k == KEnum:
		var s string
		var ok bool
		if viaTxn {
			s, ok = t.Enum(c.Name).Get()
		} else {
			s, ok = r.Enum(c.Name)
		}
		return Val{S: strings.Clone(s)}, ok
	case k.IsRecord():
		var v any
		var ok bool
		if viaTxn {
			v, ok = t.Record(c.Name).Get()
		} else {
			v, ok = r.Record(c.Name)
		}
		if !ok {
			return Val{}, false
		}
		rec, isRec := v.(*Rec)
		if !isRec {
			return Val{S: fmt.Sprintf("<not a *Rec: %T>", v)}, true
		}
		return Val{S: recToString(rec)}, true
	case k == KKey:
		s, ok := r.Key()
		return Val{S: strings.Clone(s)}, ok
	}
	panic("readCell")
}

// readAny reads a cell through Row.Any and converts it to a Val ("" error string if fine).
func readAny(r column.Row, c ColSpec) (Val, bool, string) {
	v, ok := r.Any(c.Name)
	if !ok {
		return Val{}, false, ""
	}
	k := c.Kind
	switch {
	case k.Numeric():
		b, good := nums[k].fromAny(v)
		if !good {
			return Val{}, true, fmt.Sprintf("Any returned %T", v)
		}
		return Val{B: b}, true, ""
	case k == KBool:
		b, good := v.(bool)
		if !good || !b {
			return Val{}, true, fmt.Sprintf("Any returned %v (%T) with ok=true", v, v)
		}
		return Val{B: 1}, true, ""
	case k.IsRecord():
		rec, good := v.(*Rec)
		if !good {
			return Val{}, true, fmt.Sprintf("Any returned %T", v)
		}
		return Val{S: recToString(rec)}, true, ""
	default:
		s, good := v.(string)
		if !good {
			return Val{}, true, fmt.Sprintf("Any returned %T", v)
		}
		return Val{S: strings.Clone(s)}, true, ""
	}
}

// ---------------------------------------------------------------------------------------------
// Index predicates (serialisable, evaluated on the real Reader and on model values)

type Pred struct {
	Op string  `json:"op"` // int<, int>=, uint>, uint<=, float<, float>=, str==, strpre, bool, byte0odd, len>
	I  int64   `json:"i,omitempty"`
	U  uint64  `json:"u,omitempty"`
	F  float64 `json:"f,omitempty"`
	S  string  `json:"s,omitempty"`
}

func (p Pred) onReader(r column.Reader) bool {
	switch p.Op {
	case "int<":
		return int64(r.Int()) < p.I
	case "int>=":
		return int64(r.Int()) >= p.I
	case "uint>":
		return uint64(r.Uint()) > p.U
	case "uint<=":
		return uint64(r.Uint()) <= p.U
	case "float<":
		return r.Float() < p.F
	case "float>=":
		return r.Float() >= p.F
	case "str==":
		return r.String() == p.S
	case "strpre":
		return strings.HasPrefix(r.String(), p.S)
	case "bool":
		return r.Bool()
	case "byte0odd":
		b := r.Bytes()
		return len(b) > 0 && b[0]&1 == 1
	case "len>":
		return int64(len(r.Bytes())) > p.I
	}
	panic("pred " + p.Op)
}

func (p Pred) onVal(k Kind, v Val) bool {
	switch p.Op {
	case "int<":
		return int64(v.B) < p.I
	case "int>=":
		return int64(v.B) >= p.I
	case "uint>":
		return v.B > p.U
	case "uint<=":
		return v.B <= p.U
	case "float<":
		return valFloat(k, v) < p.F
	case "float>=":
		return valFloat(k, v) >= p.F
	case "str==":
		return v.S == p.S
	case "strpre":
		return strings.HasPrefix(v.S, p.S)
	case "bool":
		return true // the value is present, i.e. true
	case "byte0odd":
		return len(v.S) > 0 && v.S[0]&1 == 1
	case "len>":
		return int64(len(v.S)) > p.I
	}
	panic("pred " + p.Op)
}

func valFloat(k Kind, v Val) float64 {
	switch {
	case k == KFloat32:
		return float64(math.Float32frombits(uint32(v.B)))
	case k == KFloat64:
		return math.Float64frombits(v.B)
	case k.Signed():
		return float64(int64(v.B))
	default:
		return float64(v.B)
	}
}

func valInt64(k Kind, v Val) int64 {
	switch {
	case k == KFloat32:
		return int64(math.Float32frombits(uint32(v.B)))
	case k == KFloat64:
		return int64(math.Float64frombits(v.B))
	default:
		return int64(v.B)
	}
}

func valUint64(k Kind, v Val) uint64 {
	switch {
	case k == KFloat32:
		return uint64(math.Float32frombits(uint32(v.B)))
	case k == KFloat64:
		return uint64(math.Float64frombits(v.B))
	default:
		return v.B
	}
}

// ---------------------------------------------------------------------------------------------
// Enum strings whose 32-bit xxh3 hashes collide (the enum column interns by that hash)

var enumCollisions [][2]string

func findEnumCollisions() [][2]string {
	if enumCollisions != nil {
		return enumCollisions
	}
	seen := make(map[uint32]int, 1<<18)
	for i := 0; i < 200000 && len(enumCollisions) < 3; i++ {
		s := fmt.Sprintf("e%d", i)
		h := uint32(xxh3.HashString(s))
		if j, ok := seen[h]; ok {
			enumCollisions = append(enumCollisions, [2]string{fmt.Sprintf("e%d", j), s})
		} else {
			seen[h] = i
		}
	}
	return enumCollisions
}

func pairsAsGroups(ps [][2]string) [][]string {
	var out [][]string
	for _, p := range ps {
		out = append(out, []string{p[0], p[1]})
	}
	return out
}

// Probe chains longer than one step (found offline by enumerating "e<n>" for n < 12M): in a
// "chain" group the first two strings share the hash h and the third hashes to h+1; in a "same"
// group all three share h. Interning the third string of a group after the others makes the
// open-addressing probe of the enum column walk two slots. Each group is re-verified against the
// hash function actually linked in; a group that does not hold (different xxh3) is dropped.
var enumChainCandidates = [][]string{
	{"e986261", "e1660045", "e8356440"},
	{"e1386701", "e8346459", "e10666503"},
	{"e14884", "e28738", "e6810011"},
	{"e51965", "e916131", "e11348017"},
}

var enumChainsVerified [][]string
var enumChainsOnce sync.Once

func enumChains() [][]string {
	enumChainsOnce.Do(func() {
		for _, g := range enumChainCandidates {
			h0, h1, h2 := uint32(xxh3.HashString(g[0])), uint32(xxh3.HashString(g[1])), uint32(xxh3.HashString(g[2]))
			if h0 == h1 && (h2 == h0 || h2 == h0+1) {
				enumChainsVerified = append(enumChainsVerified, g)
			}
		}
	})
	return enumChainsVerified
}
