#!/bin/bash
# Entry point of every registered check:  ./run.sh <Cxx> quick|thorough   |   ./run.sh <Cxx> replay <file>
# Rebuilds the harness (and therefore /repo's current working tree, through the replace
# directive in harness/go.mod) with the instrumentation tag, then runs the driver.
#
# Self-test mode (never used by a registered check): VERIF_REPO=<scratch copy of the library>
# VERIF_ALT=<name> builds against that copy through a generated -modfile and keeps binaries,
# evidence and replays under .build/alt-<name>/ so that /verif's own evidence is not touched.
set -u
ROOT="$(cd "$(dirname "$0")" && pwd)"
cd "$ROOT"
export GOFLAGS=-mod=mod GOPROXY=off GOSUMDB=off GOTOOLCHAIN=local
export VERIF_ROOT="$ROOT"
PROP="${1:?property id}"; MODE="${2:?quick|thorough|replay}"
BUILD="$ROOT/.build"
MODFILE=""
if [ -n "${VERIF_ALT:-}" ]; then
  BUILD="$ROOT/.build/alt-$VERIF_ALT"
  mkdir -p "$BUILD"
  sed "s#=> /repo#=> ${VERIF_REPO:?VERIF_REPO}#" "$ROOT/harness/go.mod" > "$BUILD/go.mod"
  cp "$ROOT/harness/go.sum" "$BUILD/go.sum"
  MODFILE="-modfile=$BUILD/go.mod"
  export VERIF_OUT="$BUILD" VERIF_BIN="$BUILD"
fi
mkdir -p "$BUILD/tmp"
export TMPDIR="$BUILD/tmp"

build() { # $1 = output name, rest = extra flags
  local out="$1"; shift
  ( cd "$ROOT/harness" && go build $MODFILE -tags verif "$@" -o "$BUILD/$out.$$" ./cmd/vcheck && mv -f "$BUILD/$out.$$" "$BUILD/$out" )
}
(
  flock 9
  build vcheck -gcflags=all=-d=checkptr || exit 4
  if "$BUILD/vcheck" needs-race "$PROP"; then
    build vcheck-race -race || exit 4
  fi
) 9>"$BUILD/build.lock" || { echo "BUILD-FAILED property=$PROP (the harness or the library does not compile with -tags verif)"; exit 4; }

case "$MODE" in
  quick|thorough)
    "$BUILD/vcheck" drive "$PROP" "$MODE"; rc=$?
    ;;
  replay)
    FILE="${3:?replay file}"
    BIN="$BUILD/vcheck"
    if "$BUILD/vcheck" needs-race "$PROP" && grep -q '"race": *true' "$FILE" 2>/dev/null; then BIN="$BUILD/vcheck-race"; fi
    "$BIN" replay "$PROP" "$FILE"; rc=$?
    ;;
  *) echo "unknown mode $MODE"; rc=3;;
esac
find "$BUILD/tmp" -mindepth 1 -maxdepth 1 -mmin +120 -exec rm -rf {} + 2>/dev/null
exit $rc
