#!/bin/bash
# Entry point of every registered check:  ./run.sh <Cxx> quick|thorough   |   ./run.sh <Cxx> replay <file>
# Rebuilds the harness (and therefore /repo's current working tree, through the replace
# directive in harness/go.mod) with the instrumentation tag, then runs the driver.
set -u
ROOT="$(cd "$(dirname "$0")" && pwd)"
cd "$ROOT"
export GOFLAGS=-mod=mod GOPROXY=off GOSUMDB=off GOTOOLCHAIN=local
export VERIF_ROOT="$ROOT"
PROP="${1:?property id}"; MODE="${2:?quick|thorough|replay}"
mkdir -p "$ROOT/.build/tmp"
export TMPDIR="$ROOT/.build/tmp"

build() { # $1 = output name, rest = extra flags
  local out="$1"; shift
  ( cd "$ROOT/harness" && go build -tags verif "$@" -o "$ROOT/.build/$out.$$" ./cmd/vcheck && mv -f "$ROOT/.build/$out.$$" "$ROOT/.build/$out" )
}
(
  flock 9
  build vcheck -gcflags=all=-d=checkptr || exit 4
  if "$ROOT/.build/vcheck" needs-race "$PROP"; then
    build vcheck-race -race || exit 4
  fi
) 9>"$ROOT/.build/build.lock" || { echo "BUILD-FAILED property=$PROP (the harness or /repo does not compile with -tags verif)"; exit 4; }

case "$MODE" in
  quick|thorough)
    "$ROOT/.build/vcheck" drive "$PROP" "$MODE"; rc=$?
    ;;
  replay)
    FILE="${3:?replay file}"
    BIN="$ROOT/.build/vcheck"
    if "$ROOT/.build/vcheck" needs-race "$PROP" && grep -q '"race": *true' "$FILE" 2>/dev/null; then BIN="$ROOT/.build/vcheck-race"; fi
    "$BIN" replay "$PROP" "$FILE"; rc=$?
    ;;
  *) echo "unknown mode $MODE"; rc=3;;
esac
find "$ROOT/.build/tmp" -mindepth 1 -maxdepth 1 -mmin +120 -exec rm -rf {} + 2>/dev/null
exit $rc
