#!/bin/bash
# Run once after a fresh restore, offline: checks the module cache and pre-builds both binaries
# (plain with checkptr, and -race), which also warms the Go build cache for the checks.
set -eu
ROOT="$(cd "$(dirname "$0")" && pwd)"
cd "$ROOT"
export GOFLAGS=-mod=mod GOPROXY=off GOSUMDB=off GOTOOLCHAIN=local
mkdir -p .build/tmp evidence
( cd harness && go build -tags verif -gcflags=all=-d=checkptr -o "$ROOT/.build/vcheck" ./cmd/vcheck )
( cd harness && go build -tags verif -race -o "$ROOT/.build/vcheck-race" ./cmd/vcheck )
"$ROOT/.build/vcheck" list | sort | tr '\n' ' '; echo
echo "setup ok"
