#!/usr/bin/env python3
"""Mutation self-test of the monitors (DESIGN.md section 7.3). Not a registered check.

Each mutant is a single realistic edit of kelindar/column. For every mutant the driver
  1. applies the edit to a scratch git worktree of /repo (outside /repo and /verif),
  2. requires that it compiles and that the repository's own suite still passes (otherwise the
     mutant is "killed by the suite" and says nothing about the monitors),
  3. runs the quick tier of the check(s) expected to notice it, in self-test mode against the
     worktree (VERIF_REPO/VERIF_ALT, see run.sh), and records whether a VIOLATION was printed,
  4. removes the worktree.
Usage: selftest/mutants.py [-j N] [-t quick|thorough] [ids...]      results -> selftest/results.json
"""
import json, os, subprocess, sys, shutil, concurrent.futures, re, time

ENV = dict(os.environ, GOFLAGS="-mod=mod", GOPROXY="off", GOSUMDB="off", GOTOOLCHAIN="local", VERIF_WATCHDOG_S=os.environ.get("VERIF_WATCHDOG_S", "90"))
ROOT = os.path.dirname(os.path.dirname(os.path.abspath(__file__)))

# id, expected checks, file, old, new, description
M = [
 ("M01","C10 C18","txn_lock.go","\tlock := txn.owner.slock\n\ttxn.cursor = index\n\n\tchunk := commit.ChunkAt(index)\n\tlock.RLock(uint(chunk))\n\terr = f(Row{txn})\n\tlock.RUnlock(uint(chunk))","\ttxn.cursor = index\n\terr = f(Row{txn})","QueryAt without the block read latch"),
 ("M02","C15 C08","txn_lock.go","\t\tlock.Lock(uint(chunk))\n\t\tcommitID := commit.Next() // must be drawn under the latch, IDs order commits of a chunk","\t\tcommitID := commit.Next()\n\t\tlock.Lock(uint(chunk))","commit id drawn before the latch (reverts fix D07; hook position differs from the original)"),
 ("M03","C15","commit/commit.go","\tclone.ID = c.ID\n","","Commit.Clone without the id"),
 ("M04","C06","commit/log.go","\tw <- commit.Clone()","\tw <- commit","Channel.Append without Clone"),
 ("M05","C06 C09 C05","commit/reader.go","func (r *Reader) writeSwap() {\n\tr.buffer[r.i0-1] &= 0xf0\n\tr.buffer[r.i0-1] |= byte(Put)\n}","func (r *Reader) writeSwap() {\n}","fixed-size Swap does not turn the merge into a put"),
 ("M06","C11 C01","column_strings.go","\t\tcase commit.Delete:\n\t\t\tfill.Remove(offset)\n\t\t\t// TODO: remove unused strings","\t\tcase commit.Delete:\n\t\t\t// TODO: remove unused strings","enum column ignores row deletes"),
 ("M07","C11","collection.go","if tailAt := int((count - 1) >> 6); fillSize > tailAt {","if tailAt := int(count >> 6); fillSize > tailAt {","findFreeIndex tail word off by one"),
 ("M08","C02 C11","txn.go","\t\ttxn.owner.fill.Remove(idx) // release the offsets reserved by this transaction\n\t}\n\tatomic.StoreUint64(&txn.owner.count, uint64(txn.owner.fill.Count()))","\t\ttxn.owner.fill.Remove(idx) // release the offsets reserved by this transaction\n\t}","rollback without recount"),
 ("M11","C13","snapshot.go","\t\t\t\tcase err == io.EOF && i < columns:\n\t\t\t\t\treturn errUnexpectedEOF","\t\t\t\tcase err == io.EOF && i < columns:\n\t\t\t\t\treturn nil","readState treats EOF inside a block as success"),
 ("M12","C14","snapshot.go","\tdefer c.recorderClose()\n","","failed snapshot leaves the recorder installed (reverts part of fix D11)"),
 ("M13","C16","column_index.go","\t\tif a.Key == b.Key {\n\t\t\treturn a.Value < b.Value // rows with equal keys are distinct items\n\t\t}\n","","sorted index comparator without tie-break"),
 ("M14","C12","column_strings.go","\t\t\tc.lock.Lock()\n\t\t\tif at, ok := c.seek[string(data[offset])]; ok && at == uint32(r.Offset) {\n\t\t\t\tdelete(c.seek, string(data[offset])) // unless another row has taken the key over meanwhile\n\t\t\t}\n\t\t\tc.lock.Unlock()","","key column does not drop the key of a deleted row"),
 ("M15","C17","column_expire.go","\tif expireAt, ok := s.rw.Get(); ok && expireAt != 0 {\n\t\treturn time.Unix(0, expireAt), true","\tif expireAt, ok := s.rw.Get(); ok {\n\t\treturn time.Unix(0, expireAt), true","cleanup treats deadline 0 (never) as 1970"),
 ("M16","C04","txn.go","\tfirst := !txn.setup\n\ttxn.initialize()\n\n\tfor _, columnName := range columns {","\tfirst := false\n\ttxn.initialize()\n\n\tfor _, columnName := range columns {","Union first-call rule dropped"),
 ("M17","C04","column_numeric.go","\t\t\tindex = withValues(index, s.reader.chunks[chunk].fill)\n\t\t\tsum += bitmap.Sum(s.reader.chunks[chunk].data, index)\n\t\t\tct += index.Count()","\t\t\tct += index.Count()\n\t\t\tindex = withValues(index, s.reader.chunks[chunk].fill)\n\t\t\tsum += bitmap.Sum(s.reader.chunks[chunk].data, index)","Avg denominator counts rows without a value"),
 ("M18","C03 C19","txn.go","\t\tupdated = true\n\t\ttxn.reader.Range(u, chunk, func(r *commit.Reader) {\n\t\t\tcolumns[0].Apply(chunk, r)\n\t\t})\n","\t\tupdated = true\n","DUMMY"),
 ("M20","C09 C18 C10","txn_lock.go","\t\tlock.Lock(uint(chunk))\n\t\tcommitID := commit.Next()","\t\tlock.RLock(uint(chunk))\n\t\tcommitID := commit.Next()","DUMMY2"),
 ("M21","C07","column_numeric.go","\t\tc.write(dst, chunk.Min()+x, data[x])","\t\tc.write(dst, x, data[x])","numeric column snapshot writes chunk-relative offsets"),
 ("M24","C19","column_index.go","\t\tif r.Type == commit.Put || r.Type == commit.Delete {\n\t\t\tc.clbk(r)","\t\tif r.Type == commit.Put {\n\t\t\tc.clbk(r)","trigger not called for deletions"),
 ("M25","C13","commit/commit.go","\t\t// Read the combined buffer\n\t\tbuffer.buffer, err = r.ReadBytes()\n\t\treturn err\n\t}); err != nil {\n\t\treturn r.Offset(), err\n\t}","\t\t// Read the combined buffer\n\t\tbuffer.buffer, err = r.ReadBytes()\n\t\treturn err\n\t}); err != nil && err != io.ErrUnexpectedEOF {\n\t\treturn r.Offset(), err\n\t}","Commit.ReadFrom swallows an unexpected EOF inside a commit"),
 ("M27","C11 C18","collection.go","\tc.lock.Lock()\n\tidx := c.findFreeIndex(atomic.AddUint64(&c.count, 1))\n\tc.fill.Set(idx)\n\tc.lock.Unlock()","\tidx := c.findFreeIndex(atomic.AddUint64(&c.count, 1))\n\tc.lock.Lock()\n\tc.fill.Set(idx)\n\tc.lock.Unlock()","next() picks the free offset outside the mutex"),
 ("M29","C15 C06","txn.go","\t\tif !changedRows && !updated {\n\t\t\treturn\n\t\t}","\t\tif !updated {\n\t\t\treturn\n\t\t}","commits that only insert/delete rows are not emitted"),
 ("M33","C04","txn.go","\tfor chunk := commit.Chunk(0); chunk <= limit; chunk++ {\n\t\tlock.RLock(uint(chunk))\n\n\t\t// reset entire bitmap","\tfor chunk := commit.Chunk(0); chunk < limit; chunk++ {\n\t\tlock.RLock(uint(chunk))\n\n\t\t// reset entire bitmap","WithUnion skips the last block"),
 ("M36","C12","column_strings.go","\tif _, ok := s.reader.OffsetOf(value); !ok {\n\t\ts.writer.PutString(commit.Put, *s.cursor, value)\n\t\treturn nil\n\t}","\tif _, ok := s.reader.OffsetOf(value); !ok || true {\n\t\ts.writer.PutString(commit.Put, *s.cursor, value)\n\t\treturn nil\n\t}","SetKey without the duplicate check"),
 ("M37","C01","column_strings.go","\t\t\tfill[offset>>6] |= 1 << (offset & 0x3f)\n\t\t\tdata[offset] = string(r.Bytes())\n\t\tcase commit.Merge:","\t\t\tfill[offset>>6] |= 1 << (offset & 0x3f)\n\t\t\tdata[offset] = r.String()\n\t\tcase commit.Merge:","string Put stores a view of the transaction buffer"),
 ("M40","C11 C01","txn.go","\ttxn.reader.Range(buffer, chunk, func(r *commit.Reader) {\n\t\ttxn.owner.cols.Range(func(column *column) {\n\t\t\tcolumn.Apply(chunk, r)\n\t\t})\n\t})\n","","row deletes are not applied to the columns"),
 ("M45","C01 C07","column_strings.go","\t\tdst.PutString(commit.Put, chunk.Min()+idx, c.readAt(locs[idx]))","\t\tdst.PutString(commit.Put, idx, c.readAt(locs[idx]))","enum snapshot writes chunk-relative offsets (reverts fix D05)"),
 ("M46","C06","snapshot.go","\t\ttxn.replay = true\n","","Replay re-applies the other chunks (reverts fix D20)"),
 ("M47","C02 C11","txn.go","\ttxn.inserts = append(txn.inserts, idx)\n","","rollback does not release reserved offsets (reverts fix D01)"),
 ("M48","C03","commit/reader.go","\tcase 2:\n\t\treturn int(r.Int16()) // sign-extend\n","","Reader.Int() zero-extends int16 (reverts half of fix D15)"),
 ("M49","C18","collection.go","\t\tc.slock.Lock(uint(chunk)) // no commit may touch the chunk while it is indexed\n\t\tif column.Snapshot(chunk, buffer) {\n\t\t\treader.Seek(buffer)\n\t\t\tindex.Apply(chunk, reader)\n\t\t}\n\t\tc.slock.Unlock(uint(chunk))\n\t}\n\n\treturn nil\n}\n\n// CreateSortIndex","\t\tif column.Snapshot(chunk, buffer) {\n\t\t\treader.Seek(buffer)\n\t\t\tindex.Apply(chunk, reader)\n\t\t}\n\t}\n\n\treturn nil\n}\n\n// CreateSortIndex","CreateIndex back-fills without the chunk latch (reverts part of fix D16a)"),
 ("M50","C09 C11","column_numbers.go","func makeInt64s(opts ...func(*option[int64])) Column {\n\treturn makeNumeric(\n\t\tfunc(buffer *commit.Buffer, idx uint32, value int64) { buffer.PutInt64(commit.Put, idx, value) },\n\t\tfunc(r *commit.Reader, fill bitmap.Bitmap, data []int64, opts option[int64]) {\n\t\t\tfor r.Next() {\n\t\t\t\toffset := r.IndexAtChunk()\n\t\t\t\tswitch r.Type {\n\t\t\t\tcase commit.Put:\n\t\t\t\t\tfill[offset>>6] |= 1 << (offset & 0x3f)\n\t\t\t\t\tdata[offset] = r.Int64()\n\t\t\t\tcase commit.Merge:\n\t\t\t\t\tif !fill.Contains(offset) {\n\t\t\t\t\t\tdata[offset] = 0 // no value, do not merge with a stale one\n\t\t\t\t\t}\n","func makeInt64s(opts ...func(*option[int64])) Column {\n\treturn makeNumeric(\n\t\tfunc(buffer *commit.Buffer, idx uint32, value int64) { buffer.PutInt64(commit.Put, idx, value) },\n\t\tfunc(r *commit.Reader, fill bitmap.Bitmap, data []int64, opts option[int64]) {\n\t\t\tfor r.Next() {\n\t\t\t\toffset := r.IndexAtChunk()\n\t\t\t\tswitch r.Type {\n\t\t\t\tcase commit.Put:\n\t\t\t\t\tfill[offset>>6] |= 1 << (offset & 0x3f)\n\t\t\t\t\tdata[offset] = r.Int64()\n\t\t\t\tcase commit.Merge:\n","int64 merge into an absent cell starts from stale data (reverts fix D13 for one type)"),
]
M.append(("M51","C18 C08","snapshot.go","\tc.slock.RLock(uint(chunk))\n\tc.lock.Lock()\n\tdefer c.slock.RUnlock(uint(chunk))\n\tdefer c.lock.Unlock()","\tc.lock.Lock()\n\tc.slock.RLock(uint(chunk))\n\tdefer c.slock.RUnlock(uint(chunk))\n\tdefer c.lock.Unlock()","snapshot takes the collection mutex before the block latch (lock-order inversion with commits: deadlock)"))
# two entries above are placeholders replaced here by multi-site edits
MULTI = {
 "M18": ("C03 C19", [("txn.go","\t\tupdated = true\n\t\ttxn.reader.Range(u, chunk, func(r *commit.Reader) {\n\t\t\tcolumns[0].Apply(chunk, r)\n\t\t})\n\n\t\t// Range through all of the computed columns and apply the final state updates.\n\t\tif len(columns) > 1 {\n\t\t\ttxn.reader.Range(u, chunk, func(r *commit.Reader) {\n\t\t\t\tfor _, v := range columns[1:] {\n\t\t\t\t\tv.Apply(chunk, r)\n\t\t\t\t}\n\t\t\t})\n\t\t}\n",
   "\t\tupdated = true\n\t\ttxn.reader.Range(u, chunk, func(r *commit.Reader) {\n\t\t\tfor _, v := range columns {\n\t\t\t\tv.Apply(chunk, r)\n\t\t\t}\n\t\t})\n")], "computed columns applied in the same pass as the column (they see merge deltas of later ops, not final values)"),
 "M20": ("C09 C18 C10", [("txn_lock.go","\t\tlock.Lock(uint(chunk))\n\t\tcommitID := commit.Next()","\t\tlock.RLock(uint(chunk))\n\t\tcommitID := commit.Next()"),("txn_lock.go","\t\tfn(commitID, chunk, fill)\n\t\tlock.Unlock(uint(chunk))","\t\tfn(commitID, chunk, fill)\n\t\tlock.RUnlock(uint(chunk))")], "commits take the block latch in shared mode"),
}

def edits_of(m):
    mid, props, f, old, new, desc = m
    if mid in MULTI:
        props, edits, desc = MULTI[mid]
        return mid, props, edits, desc
    return mid, props, [(f, old, new)], desc

def apply_edit(wt, f, old, new):
    p = os.path.join(wt, f)
    data = open(p, 'rb').read()
    crlf = b'\r\n' in data
    o, n = old.encode(), new.encode()
    if crlf:
        o, n = o.replace(b'\n', b'\r\n'), n.replace(b'\n', b'\r\n')
    if data.count(o) != 1:
        raise RuntimeError(f"{f}: anchor found {data.count(o)} times")
    open(p, 'wb').write(data.replace(o, n))

def sh(cmd, cwd=None, timeout=3600, env=ENV):
    r = subprocess.run(cmd, shell=True, cwd=cwd, env=env, capture_output=True, text=True, timeout=timeout)
    return r.returncode, r.stdout + r.stderr

def run_mutant(m, tier, slot):
    mid, props, edits, desc = edits_of(m)
    wt = f"/tmp/st/{mid}"
    res = {"id": mid, "desc": desc, "expected": props.split(), "status": "", "detected_by": [], "missed_by": []}
    sh(f"git -C /repo worktree remove --force {wt}")
    rc, out = sh(f"git -C /repo worktree add -q --detach {wt} HEAD")
    try:
        for f, old, new in edits:
            apply_edit(wt, f, old, new)
        _, diff = sh("git diff", cwd=wt)
        os.makedirs(os.path.join(ROOT, "selftest", "patches"), exist_ok=True)
        open(os.path.join(ROOT, "selftest", "patches", mid + ".patch"), "w", newline='').write(diff)
        rc, out = sh("go build ./...", cwd=wt)
        if rc != 0:
            res["status"] = "does-not-compile"; res["note"] = out[-400:]; return res
        rc, out = sh("go test -vet=off -count=1 -timeout 5m ./...", cwd=wt)
        if rc != 0:
            res["status"] = "killed-by-repo-suite"
            fails = re.findall(r"--- FAIL: (\S+)", out)
            res["note"] = "suite fails: " + ",".join(fails[:5]); return res
        res["status"] = "survives-suite"
        for prop in res["expected"]:
            env = dict(ENV, VERIF_REPO=wt, VERIF_ALT=mid)
            t0 = time.time()
            rc, out = sh(f"{ROOT}/run.sh {prop} {tier}", env=env)
            viol = [l for l in out.split("\n") if l.startswith("VIOLATION")]
            first = [l.strip() for l in out.split("\n") if l.startswith("  case=")][:1]
            entry = {"check": prop, "rc": rc, "violations": len(viol), "first": (first[0][:300] if first else ""), "secs": round(time.time() - t0, 1)}
            (res["detected_by"] if (rc == 1 and viol) else res["missed_by"]).append(entry)
        return res
    except Exception as ex:
        res["status"] = "error"; res["note"] = str(ex); return res
    finally:
        sh(f"git -C /repo worktree remove --force {wt}")
        shutil.rmtree(os.path.join(ROOT, ".build", "alt-" + mid), ignore_errors=True)

def main():
    args = sys.argv[1:]
    jobs, tier, ids = 2, "quick", []
    while args:
        a = args.pop(0)
        if a == "-j": jobs = int(args.pop(0))
        elif a == "-t": tier = args.pop(0)
        else: ids.append(a)
    todo = [m for m in M if not ids or m[0] in ids]
    os.makedirs("/tmp/st", exist_ok=True)
    results = []
    with concurrent.futures.ThreadPoolExecutor(jobs) as ex:
        futs = {ex.submit(run_mutant, m, tier, i): m for i, m in enumerate(todo)}
        for fu in concurrent.futures.as_completed(futs):
            r = fu.result(); results.append(r)
            det = ",".join(e["check"] for e in r["detected_by"]); mis = ",".join(e["check"] for e in r["missed_by"])
            print(f"{r['id']} {r['status']:22s} detected_by=[{det}] missed_by=[{mis}] {r['desc'][:70]} {r.get('note','')[:120]}", flush=True)
    results.sort(key=lambda r: r["id"])
    path = os.path.join(ROOT, "selftest", "results.json")
    old = {}
    if os.path.exists(path):
        old = {r["id"]: r for r in json.load(open(path))}
    for r in results: old[r["id"]] = r
    json.dump(sorted(old.values(), key=lambda r: r["id"]), open(path, "w"), indent=1)

main()
