#!/usr/bin/env python3
# Generates /verif/MANIFEST.json from the table below (single source of truth for the checks).
import json, os, subprocess
ROOT = os.path.dirname(os.path.dirname(os.path.abspath(__file__)))

CHECKS = {
 "C05": dict(engine="E4 codec round-trip monitor", cat="exploration", ref="DESIGN.md 4/C05",
   technique="runtime monitoring: generated op sequences executed on the real commit.Buffer/Reader/Commit/Log (checkptr build), decoded output compared with the generated list",
   text="Every op sequence up to length 3 (4 in thorough) over a reduced alphabet and up to 2 (3) over the full alphabet of kind x width x offset-move is executed exhaustively, plus seeded long random sequences with interleaved blocks and Log round trips; held = every decode path returned the generated sequence.",
   note="Trusts the harness's own expectation builder (the generated list is the oracle). Offsets < 2^31, values <= 65535 bytes. SwapBool and different-length Swap on a Seek reader are outside what the library itself does and are not exercised."),
}
NOT_BUILT = {}

def main():
    props = [json.loads(l) for l in open(os.path.join(ROOT, "properties.jsonl"))]
    hooks_commits = subprocess.run(["git","-C","/repo","log","--format=%H","--grep=^verif:"],capture_output=True,text=True).stdout.split()
    m = {
      "version": 1,
      "setup_cmd": "./setup.sh",
      "hooks": {
        "guard": "verif",
        "enable": "go build -tags verif (harness/go.mod replaces github.com/kelindar/column by /repo, so /repo's working tree is compiled with the tag)",
        "baseline_off_cmd": "cd /repo && GOFLAGS=-mod=mod GOPROXY=off GOSUMDB=off GOTOOLCHAIN=local go test -json -vet=off -count=1 -timeout 25m ./...",
        "source_commits": hooks_commits,
        "add_only": True,
      },
      "engines": [],
      "checks": [],
      "not_applicable": [],
      "notes": "All checks are runtime monitors over executions of the real library built from /repo's working tree; see DESIGN.md. known_findings.txt lists recorded defects; VERIF_SEED seeds every PRNG.",
    }
    engines = {}
    for p in props:
        pid = p["id"]
        if pid in CHECKS:
            c = CHECKS[pid]
            m["checks"].append({
              "property_id": pid,
              "quick_cmd": f"./run.sh {pid} quick",
              "thorough_cmd": f"./run.sh {pid} thorough",
              "evidence_file": f"evidence/{pid}.json",
              "replay_cmd_template": f"./run.sh {pid} replay {{path}}",
              "engine": c["engine"],
              "level_claimed": {"category": c["cat"], "text": c["text"], "design_ref": c["ref"]},
              "level_note": c["note"],
              "technique": c["technique"],
            })
            engines.setdefault(c["engine"], []).append(pid)
        else:
            m["not_applicable"].append({"property_id": pid, "reason": NOT_BUILT.get(pid, "check not built yet in this revision (runtime monitoring applies; see DESIGN.md section 4) - not claimed until its monitor is committed")})
    for e, ps in engines.items():
        m["engines"].append({"name": e, "path": "harness/cmd/vcheck", "serves_properties": ps, "kind_free_text": "runtime monitor (Go), worker processes driven by vcheck drive"})
    json.dump(m, open(os.path.join(ROOT, "MANIFEST.json"), "w"), indent=1)
    print("checks:", [c["property_id"] for c in m["checks"]], "not claimed:", len(m["not_applicable"]))

main()
