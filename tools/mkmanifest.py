#!/usr/bin/env python3
# Generates /verif/MANIFEST.json from the table below (single source of truth for the checks).
import json, os, subprocess
ROOT = os.path.dirname(os.path.dirname(os.path.abspath(__file__)))

E1="E1 lock-step model monitor"; E2="E2 controlled-schedule monitor"; E3="E3 parallel stress + race detector"
def e1(text, note="Single goroutine histories; trusts the reference model (harness/cmd/vcheck/model.go) and the generator's model boundaries (DESIGN.md 3.3)."):
    return dict(engine=E1, cat="exploration", technique="runtime monitoring: seeded histories executed on the real collection in lock-step with an executable reference model; full-state dump through the public API compared after every step", text=text, note=note)
CHECKS = {
 "C01": dict(e1("Held on every dump of every seeded history: all cells of all live rows (16 column kinds, up to 3 blocks, 8 capacities, columns created over data) read back bit/byte-exact through Row readers, Txn readers and Row.Any; columns are dropped and re-created under the same name, transactions include filter-chain DeleteAll, the enum alphabet holds colliding pairs and probe chains."), ref="DESIGN.md 4/C01"),
 "C02": dict(e1("Held on every rolled-back transaction of the histories (full dump identical, nothing logged, twin collection hands out identical insert offsets), on every own-read inside a transaction and on every in-flight observation from a second goroutine (dump and snapshot+restore), except the recorded finding KF-INFLIGHT-INSERT; E3 phases: torn-row rounds (no reader callback sees half a commit) and snapshot loops beside tag writers (no restored row holds half a transaction); reserve rounds hold inserts open beside inserts that roll back and compare Count() with the rows visited."), ref="DESIGN.md 4/C02"),
 "C03": dict(e1("Held on every dump: With(index) and Row.Bool(index) equal the predicate evaluated over the values read through the typed readers, on primaries, stream replicas and restored collections, for indexes created before/after the data and dropped at random; an E3 phase builds indexes while six writers commit and compares every index bit with the predicate at quiescence.", note="Histories are single goroutine, the E3 phase is real parallelism; trusts the reference model and the generator's model boundaries (DESIGN.md 3.3)."), ref="DESIGN.md 4/C03"),
 "C04": dict(e1("Held on every generated filter chain and aggregate: Count/Range/Sum/Avg/Min/Max equal set algebra and direct aggregation over the dumped rows and values; columns are created over sparse multi-block data, indexes are compared with their predicates after every step, DeleteAll behind a chain deletes exactly the rows Range visits."), ref="DESIGN.md 4/C04"),
 "C05": dict(engine="E4 codec round-trip monitor", cat="exploration", ref="DESIGN.md 4/C05",
   technique="runtime monitoring: generated op sequences executed on the real commit.Buffer/Reader/Commit/Log (checkptr build), decoded output compared with the generated list",
   text="Every op sequence up to length 3 (4 in thorough) over a reduced alphabet and up to 2 (3) over the full alphabet of kind x width x offset-move is executed exhaustively, plus seeded long random sequences with interleaved blocks and Log round trips; held = every decode path returned the generated sequence (except the recorded finding KF-VARLEN-MERGE-REORDER, attributed from the generated sequence).",
   note="Trusts the harness's own expectation builder (the generated list is the oracle). Offsets < 2^31, values <= 65535 bytes. SwapBool and different-length Swap on a Seek reader are outside what the library itself does and are not exercised."),
 "C06": dict(engine=E2+" + "+E1, cat="exploration", ref="DESIGN.md 4/C06",
   technique="runtime monitoring: controlled scheduling of real writers at instrumentation hooks (enumerated interleavings) + lock-step histories; replicas fed the real commit.Channel / commit.Log compared by full-state dump",
   text="Held on every enumerated interleaving of the scripted multi-writer scenarios and on every seeded single-writer history: replicas fed the emitted commits (channel clone and serialized log) equal the primary at quiescence; histories run with other clients committing between the operations of a transaction; directed probes force a cross-block key take-over; marker commits of different blocks are overlapped (forced from a trigger callback and free-running) and Count() of primary and replica compared with the rows visited; key take-over rounds (keys freed in block 0 by delete or re-key, taken over by rows of block 1) compare every key between primary and stream replica.",
   note="E2 parks tasks only at lock-free hook points; trusts the dump comparison and that emission order = order of Append calls."),
 "C07": dict(e1("Held on every snapshot->restore cycle of the histories: dump(restored) == dump(original) incl. indexes, sorted order, key lookups and counts, for same and different capacity, and the history continues on the restored collection under the value/live/key oracles; a sweep restores states of exactly 1 MiB + t uncompressed bytes for every t over the non-filler part, so the s2 block boundary (short read) falls on every byte of every field; sources that grow into a new block while the snapshot is written restore whole."), ref="DESIGN.md 4/C07"),
 "C08": dict(engine=E2+" + "+E3, cat="exploration", ref="DESIGN.md 4/C08",
   technique="runtime monitoring: controlled scheduling of a real Snapshot beside real writers at the hooks of both protocols, and snapshot loops beside parallel writers; restored state checked per block against the fold of the recorded apply order (prefix-state oracle)",
   text="Held on every executed interleaving: each restored block equals a prefix state S_b[k] with k between the acknowledged-before-call and applied-before-return bounds; Snapshot never failed; only the recorded finding KF-INFLIGHT-INSERT was tolerated by exact signature.",
   note="E2 parks tasks only at lock-free hook points; apply order per block is taken from the logger (called inside the latch)."),
 "C09": dict(engine=E2+" + "+E3, cat="exploration", ref="DESIGN.md 4/C09",
   technique="runtime monitoring: controlled scheduling of concurrent merging writers; final values compared with the fold of the deltas in the recorded per-block apply order; replicas checked for the rewritten absolute values; under real parallelism, recorded per-row histories of merge/put/read checked for linearizability (porcupine) and the fold oracle over thousands of commits",
   text="Held on every executed interleaving: additive, order-sensitive (v*3+d) and concatenating merges end at the fold of all committed deltas in apply order, each exactly once; every committed transaction has a commit applied in every block it changed (incl. blocks visited in descending order); groups of six transactions merging into one cell of a block that does not exist yet lose no delta; merges counted into a column while indexes and triggers are created and dropped on it are all there.",
   note="E2 parks tasks only at lock-free hook points."),
 "C10": dict(engine=E3, cat="exploration", ref="DESIGN.md 4/C10",
   technique="runtime monitoring under real parallelism (race-detector build and plain build, micro-delays injected at commit hooks incl. inside the latch): per-row multi-column tag invariant asserted inside reader callbacks",
   text="Held on every reader callback of every round (millions per run, about half of them overlapping a commit on the same block as counted at the hooks): the seven redundant columns of the row (one stored through a merge function returning part of its delta) always carried one committed tag, never a rolled-back one; in the growth phase every large transaction on exclusively owned rows read back complete (eight bool columns, eight indexes) while the collection grew from 1 to 14 blocks.",
   note="Schedules are whatever 16 cores and the injected delays produce; nothing is enumerated."),
 "C11": dict(e1("Held on every insert of every history (offset free in the model and not reserved in the same transaction), on every dump (Range/Count/Txn.Count equal the live set; cells of reused offsets carry only what the insert stored), except the recorded finding KF-WRITE-THEN-DELETE-ORPHAN (directed probe); an E3 phase runs 16 inserting/deleting workers with an ownership table (collision = occupied entry), read-back of own rows and a census at quiescence.", note="Histories are single goroutine (with interloper transactions between operations), the E3 phase is real parallelism; trusts the reference model and the generator's model boundaries (DESIGN.md 3.3)."), ref="DESIGN.md 4/C11"),
 "C12": dict(e1("Held on every key operation (return value vs the model's key table at issue time) and every dump grouped by key; two-transaction creating races are enumerated under the controlled scheduler at the key.afterCheck hook - the recorded finding KF-KEY-CHECK-THEN-ACT is attributed only when two creating operations both succeeded; an E3 phase runs 12 workers on disjoint key sets against one key table and checks every return value against the worker's own map.", note="Histories are single goroutine, E2/E3 phases add schedules; trusts the reference model and the generator's model boundaries (DESIGN.md 3.3)."), ref="DESIGN.md 4/C12"),
 "C13": dict(engine="E5 crash-point enumerator", cat="fault_enumeration", ref="DESIGN.md 4/C13",
   technique="runtime fault enumeration: every truncation offset (thorough) / all frame and commit boundaries +-2 plus seeded offsets (quick) of real snapshot and log streams restored by the real code under recover() and a watchdog; result compared with explicitly constructed allowed states",
   text="Held on every prefix tried: error or a state at a commit boundary (complete state part + prefix of logged commits) / whole blocks of the state part; no panic, no hang, no partial commit delivered by Log.Range; every commit boundary state is anchored per block against the model (block as read + the recorded commits applied to it afterwards), incl. sources that grow into a new block before / after the state is written.",
   note="Reference states E_j are built by the same Restore from well-formed input; E_0, every E_j and E_m are anchored against the model / the primary's dump."),
 "C14": dict(engine="E6 writer-fault injector", cat="fault_enumeration", ref="DESIGN.md 4/C14",
   technique="runtime fault injection at the destination io.Writer (every byte budget / call index / once / forever / fail-once partial write), with follow-up commit, healthy snapshot+restore vs model, two-column transactions read back after every fault, and fd/temp-file census with GC disabled",
   text="Held on every injected fault: error reported iff the destination failed, the collection kept committing, a later healthy snapshot restored to the model, no descriptor or temp file accumulated; the fault-free dry run round-trips and no Snapshot returned nil without handing over a byte.",
   note="Faults are injected at the writer passed to Snapshot only; GOMAXPROCS=1 workers plus a GOMAXPROCS=4 slice."),
 "C15": dict(engine=E2+" + "+E1, cat="exploration", ref="DESIGN.md 4/C15",
   technique="runtime monitoring: recording commit.Logger (invoked inside the block latch) under enumerated interleavings (with and without a snapshot in progress), parallel stream rounds with snapshots, and seeded histories; exactly-once / ordering / identity oracle over the recorded event log, also through the real commit.Channel",
   text="Held on every executed interleaving and history: one commit per changed block per committed transaction, none for rolled-back/no-op ones, IDs non-zero, distinct and increasing per block in arrival order; the channel delivers the same (ID, block) sequence; also with a logger that fails on every 2nd-4th append (after recording it).",
   note="E2 parks tasks only at lock-free hook points."),
 "C16": dict(e1("Held on every dump and every filtered Ascend: the callback sequence is a permutation of the selected rows holding a value, in non-decreasing order of the values read at the callbacks (6-string alphabet forcing duplicates); sorted indexes created while six writers commit are checked at quiescence."), ref="DESIGN.md 4/C16"),
 "C17": dict(engine="E7 TTL monitor", cat="exploration", ref="DESIGN.md 4/C17",
   technique="runtime monitoring of the real cleanup goroutine (1/5/20 ms intervals) beside writers: clock-free safety oracle for rows that must live, liveness bounded in vacuum passes counted at a hook, exact deadline comparison after restore/replay; block-boundary phase with an insert held open in a new block and the overlapping cleanup commit held at a hook until the insert committed",
   text="Held on every observation of every case: rows without TTL or with far deadlines were always present, short-lived rows were never removed ahead of their deadline and were gone within 5 passes that started after it, deadlines were stored exactly and survived snapshot/restore and stream replay (replica fed progressively and compared after each of 150 groups of four concurrent extensions per case); a row inserted as the first of a new block beside the cleanup stayed.",
   note="Wall clock assumed not to step backwards by more than 20 ms; verdicts on rows whose deadline was moved close to the old one are withheld."),
 "C18": dict(engine=E3, cat="exploration", ref="DESIGN.md 4/C18",
   technique="Go race detector (halt_on_error=0, log_path) over eight repeated parallel workload mixes with injected delays; reports de-duplicated by function pair and classified by exact stack signature; watchdog + goroutine-dump classification for termination",
   text="Held = no race report other than the recorded finding KF-RACE-GROW (matched by stack signature) and every round terminated; E2's serialized schedules (C06/C08/C09/C15/C12 checks) double as deadlock probes.",
   note="The race detector reports only races that the executed schedules make observable."),
 "C19": dict(e1("Held on every transaction of the histories: per row the trigger callback log equals the model's committed stores (after merge) and row deletions, nothing for rolled-back transactions or dropped triggers; an E3 phase drops triggers beside commits (one forced mid-commit) and creates/drops a trigger while a transaction is open; recorded finding KF-VARLEN-MERGE-REORDER via directed probe."), ref="DESIGN.md 4/C19"),
}
NOT_BUILT = {}

def main():
    props = [json.loads(l) for l in open(os.path.join(ROOT, "properties.jsonl"))]
    hooks_commits = subprocess.run(["git","-C","/repo","log","--format=%H","--grep=^verif:"],capture_output=True,text=True).stdout.split()
    m = {
      "version": 1,
      "setup_cmd": "./setup.sh",
      "hooks": {
        "guard": "verif",
        "enable": "go build -tags verif (harness/go.mod replaces github.com/kelindar/column by /repo, so /repo's working tree is compiled with the tag)",
        "baseline_off_cmd": "cd /repo && GOFLAGS=-mod=mod GOPROXY=off GOSUMDB=off GOTOOLCHAIN=local go test -json -vet=off -count=1 -timeout 25m ./...",
        "source_commits": hooks_commits,
        "add_only": True,
      },
      "engines": [],
      "checks": [],
      "not_applicable": [],
      "notes": "All checks are runtime monitors over executions of the real library built from /repo's working tree; see DESIGN.md. known_findings.txt lists recorded defects; VERIF_SEED seeds every PRNG.",
    }
    engines = {}
    for p in props:
        pid = p["id"]
        if pid in CHECKS:
            c = CHECKS[pid]
            m["checks"].append({
              "property_id": pid,
              "quick_cmd": f"./run.sh {pid} quick",
              "thorough_cmd": f"./run.sh {pid} thorough",
              "evidence_file": f"evidence/{pid}.json",
              "replay_cmd_template": f"./run.sh {pid} replay {{path}}",
              "engine": c["engine"],
              "level_claimed": {"category": c["cat"], "text": c["text"], "design_ref": c["ref"]},
              "level_note": c["note"],
              "technique": c["technique"],
            })
            engines.setdefault(c["engine"], []).append(pid)
        else:
            m["not_applicable"].append({"property_id": pid, "reason": NOT_BUILT.get(pid, "check not built yet in this revision (runtime monitoring applies; see DESIGN.md section 4) - not claimed until its monitor is committed")})
    for e, ps in engines.items():
        m["engines"].append({"name": e, "path": "harness/cmd/vcheck", "serves_properties": ps, "kind_free_text": "runtime monitor (Go), worker processes driven by vcheck drive"})
    json.dump(m, open(os.path.join(ROOT, "MANIFEST.json"), "w"), indent=1)
    print("checks:", [c["property_id"] for c in m["checks"]], "not claimed:", len(m["not_applicable"]))

main()
