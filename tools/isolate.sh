#!/bin/bash
# tools/isolate.sh <Dxx> <Cyy> [tier]  — development aid (not a registered check):
# removes ONE fix (notes/fixes/Dxx.iso.patch) from /repo's working tree, runs the check, restores the fix.
set -u
D="$1"; C="$2"; T="${3:-quick}"
P=/verif/notes/fixes/$D.iso.patch
git -C /repo apply -R "$P" || { echo "cannot reverse $D"; exit 9; }
trap 'git -C /repo apply "$P"' EXIT
/verif/run.sh "$C" "$T" 2>&1 | cut -c1-400 | grep -E "VIOLATION|case=|KNOWN|NO-EVID|seed=" | head -${LINES_MAX:-6}
