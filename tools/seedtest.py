#!/usr/bin/env python3
"""tools/seedtest.py <mutant dir> <seed id> [checks...] — confirm a seeded change from a sub-agent and run checks on it.

1. in a fresh scratch worktree of /repo: the demonstration passes on the clean tree; with patch.diff applied the tree
   builds, the repository suite passes, and the demonstration fails;
2. runs the quick tier of the given checks (default: the property named in meta.json) against the patched worktree
   (self-test mode of run.sh: VERIF_REPO / VERIF_ALT), recording which of them print a VIOLATION;
3. stores patch.diff, the demonstration and meta.json (extended with what was run and seen) under /verif/seeded/<seed id>/.
"""
import json, os, shutil, subprocess, sys, time
ENV = dict(os.environ, GOFLAGS="-mod=mod", GOPROXY="off", GOSUMDB="off", GOTOOLCHAIN="local")
ROOT = "/verif"
def sh(cmd, cwd=None, env=ENV, timeout=7200):
    r = subprocess.run(cmd, shell=True, cwd=cwd, env=env, capture_output=True, text=True, timeout=timeout)
    return r.returncode, r.stdout + r.stderr
def main():
    src, sid = sys.argv[1], sys.argv[2]
    src = os.path.abspath(src)
    meta = json.load(open(os.path.join(src, "meta.json")))
    checks = sys.argv[3:] or [meta["property"]]
    tier = os.environ.get("SEED_TIER", "quick")
    wt = f"/tmp/st/seed-{sid}"
    sh(f"git -C /repo worktree remove --force {wt}"); os.makedirs("/tmp/st", exist_ok=True)
    sh(f"git -C /repo worktree add -q --detach {wt} HEAD")
    out = {"confirmed": False}
    try:
        ddir = os.path.join(wt, meta.get("demo_dir", "."))
        demo = os.path.join(ddir, "zz_seed_demo_test.go")
        shutil.copy(os.path.join(src, "demo_test.go"), demo)
        test = meta["demo_test"]
        flags = meta.get("demo_flags", "")
        rc0, o0 = sh(f"go test -vet=off -count=1 {flags} -run '{test}' .", cwd=ddir)
        out["demo_on_clean_tree"] = "pass" if rc0 == 0 else "FAIL"
        rc, o = sh(f"git apply {os.path.join(src,'patch.diff')}", cwd=wt)
        if rc != 0: out["error"] = "patch does not apply: " + o[-300:]; return out
        rc, o = sh("go build ./...", cwd=wt); out["builds"] = rc == 0
        rc1, o1 = sh(f"go test -vet=off -count=1 {flags} -run '{test}' .", cwd=ddir)
        out["demo_with_change"] = "fail" if rc1 != 0 else "PASSES"
        os.remove(demo)
        rc2, o2 = sh("go test -vet=off -count=1 ./...", cwd=wt)
        out["repo_suite_with_change"] = "pass" if rc2 == 0 else "FAIL: " + o2[-300:]
        out["confirmed"] = rc0 == 0 and out["builds"] and rc1 != 0 and rc2 == 0
        out["checks"] = {}
        for c in checks:
            t0 = time.time()
            rc, o = sh(f"{ROOT}/run.sh {c} {tier}", env=dict(ENV, VERIF_REPO=wt, VERIF_ALT="seed-" + sid))
            viol = [l for l in o.split("\n") if l.startswith("VIOLATION")]
            first = [l.strip() for l in o.split("\n") if l.startswith("  case=")][:1]
            out["checks"][c] = {"tier": tier, "exit": rc, "violation_lines": len(viol), "first": first[0][:400] if first else "", "secs": round(time.time() - t0, 1)}
        return out
    finally:
        sh(f"git -C /repo worktree remove --force {wt}")
        shutil.rmtree(f"{ROOT}/.build/alt-seed-{sid}", ignore_errors=True)
        dst = f"{ROOT}/seeded/{sid}"; os.makedirs(dst, exist_ok=True)
        if os.path.realpath(src) != os.path.realpath(dst):
            shutil.copy(os.path.join(src, "patch.diff"), dst); shutil.copy(os.path.join(src, "demo_test.go"), dst)
        old = {}
        if os.path.exists(os.path.join(dst, "meta.json")):
            old = json.load(open(os.path.join(dst, "meta.json"))).get("verification", {}).get("checks", {})
        old.update(out.get("checks", {})); out["checks"] = old
        meta["verification"] = out
        json.dump(meta, open(os.path.join(dst, "meta.json"), "w"), indent=1)
        det = [c for c, v in out.get("checks", {}).items() if v["exit"] == 1 and v["violation_lines"]]
        mis = [c for c, v in out.get("checks", {}).items() if not (v["exit"] == 1 and v["violation_lines"])]
        print(f"{sid}: confirmed={out.get('confirmed')} demo_clean={out.get('demo_on_clean_tree')} demo_mut={out.get('demo_with_change')} suite={str(out.get('repo_suite_with_change'))[:20]} detected_by={det} missed_by={mis} {out.get('error','')}")
main()
