#!/bin/bash
# tools/runall.sh [tier] [props...] — development aid: runs the registered checks one after the other,
# prints exit code and wall time, validates each evidence file against the schema.
cd /verif
TIER="${1:-quick}"; shift
PROPS="$@"
[ -z "$PROPS" ] && PROPS=$(python3 -c "import json;print(' '.join(c['property_id'] for c in json.load(open('MANIFEST.json'))['checks']))")
for p in $PROPS; do
  s=$(date +%s.%N)
  out=$(./run.sh $p $TIER 2>&1); rc=$?
  e=$(date +%s.%N)
  v=$(python3-vt -c "
import json, jsonschema,sys
try:
    jsonschema.validate(json.load(open('evidence/$p.json')), json.load(open('/root/.vp/EVIDENCE.schema.json'))); print('evidence-ok')
except Exception as ex: print('EVIDENCE-INVALID', str(ex)[:200])")
  printf "%s rc=%d %.1fs %s | %s\n" $p $rc $(echo "$e - $s" | bc) "$v" "$(echo "$out" | grep -E "seed=" | cut -c1-160)"
  echo "$out" | grep -E "^VIOLATION|^NO-EVIDENCE|^BUILD-FAILED|^  case=" | cut -c1-300 | head -4
done
